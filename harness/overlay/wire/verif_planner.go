//go:build verif

package wire

// Unit-tier correspondence harness for the planner core: buildProviderMap, verifyAcyclic,
// solve, verifyArgsUsed are run in-process on synthetic go/types objects; the same abstract
// case is printed as a request line for the Lean model (lean/WireV/Driver.lean).

import (
	"fmt"
	"go/ast"
	"go/token"
	"go/types"
	"math/rand"
	"regexp"
	"sort"
	"strconv"
	"strings"

	"golang.org/x/tools/go/types/typeutil"
)

type vProv struct {
	id                                    int
	args, outs                            []int
	isStruct, varargs, hasCleanup, hasErr bool
}
type vVal struct{ id, out int }
type vFld struct {
	id, parent int
	outs       []int
}
type vBnd struct{ id, iface, provided int }
type vSet struct {
	id      int
	hasArgs bool
	args    []int
	imports []int // positions of earlier sets
	provs   []vProv
	vals    []vVal
	flds    []vFld
	bnds    []vBnd
}
type vCase struct {
	nT    int
	kind  []int // 0 named, 1 *named(base), 2 []named(base), 3 map[string]named(base)
	base  []int
	sets  []vSet
	plan  bool
	out   int
	label string
}

func b2i(b bool) int {
	if b {
		return 1
	}
	return 0
}

// request renders the case in the Lean driver's protocol.
func (c *vCase) request(order []int) string {
	var w []int
	put := func(xs ...int) { w = append(w, xs...) }
	list := func(xs []int) { put(len(xs)); put(xs...) }
	list(order)
	put(len(c.sets))
	for _, s := range c.sets {
		put(s.id, b2i(s.hasArgs))
		if s.hasArgs {
			list(s.args)
		}
		list(s.imports)
		put(len(s.provs))
		for _, p := range s.provs {
			put(p.id)
			list(p.args)
			list(p.outs)
			put(b2i(p.isStruct), b2i(p.varargs), b2i(p.hasCleanup), b2i(p.hasErr))
		}
		put(len(s.vals))
		for _, v := range s.vals {
			put(v.id, v.out)
		}
		put(len(s.flds))
		for _, f := range s.flds {
			put(f.id, f.parent)
			list(f.outs)
		}
		put(len(s.bnds))
		for _, b := range s.bnds {
			put(b.id, b.iface, b.provided)
		}
	}
	op := "sets"
	if c.plan {
		op = "plan"
		put(c.out)
	}
	sb := new(strings.Builder)
	sb.WriteString(op)
	for _, x := range w {
		sb.WriteByte(' ')
		sb.WriteString(strconv.Itoa(x))
	}
	return sb.String()
}

// ---- synthetic go/types world ---------------------------------------------------------

type vWorld struct {
	c       *vCase
	pkg     *types.Package
	named   map[int]*types.Named
	generic *types.Named
	strID   map[string]int
	fset    *token.FileSet
	hasher  typeutil.Hasher
	provs   map[int]*Provider
	provID  map[*Provider]int
	valID   map[*Value]int
	fldID   map[*Field]int
	bndID   map[*IfaceBinding]int
	setID   map[*ProviderSet]int
}

func newWorld(c *vCase) *vWorld {
	w := &vWorld{c: c, pkg: types.NewPackage("example.com/p", "p"), named: map[int]*types.Named{},
		strID: map[string]int{}, fset: token.NewFileSet(), hasher: typeutil.MakeHasher(),
		provs: map[int]*Provider{}, provID: map[*Provider]int{}, valID: map[*Value]int{},
		fldID: map[*Field]int{}, bndID: map[*IfaceBinding]int{}, setID: map[*ProviderSet]int{}}
	for i := 0; i < c.nT; i++ {
		if c.kind[i] == 0 {
			tn := types.NewTypeName(token.NoPos, w.pkg, fmt.Sprintf("T%03d", i), nil)
			w.named[i] = types.NewNamed(tn, types.NewStruct(nil, nil), nil)
		}
	}
	for i := 0; i < c.nT; i++ {
		w.strID[types.TypeString(w.mk(i), nil)] = i
	}
	return w
}

// mk returns the type with id i; composite types are built afresh on every call so that the
// code under test must rely on types.Identical rather than pointer equality.
func (w *vWorld) mk(i int) types.Type {
	switch w.c.kind[i] {
	case 0:
		return w.named[i]
	case 1:
		return types.NewPointer(w.named[w.c.base[i]])
	case 2:
		return types.NewSlice(w.named[w.c.base[i]])
	case 3:
		return types.NewMap(types.Typ[types.String], w.named[w.c.base[i]])
	default:
		// an instance of a generic type: every spelling Box[T] is a *types.Named of its own
		t, err := types.Instantiate(nil, w.box(), []types.Type{w.named[w.c.base[i]]}, false)
		if err != nil {
			panic(err)
		}
		return t
	}
}

// box is the generic type `type Box[E any] struct{}` of the world's package.
func (w *vWorld) box() *types.Named {
	if w.generic == nil {
		tp := types.NewTypeParam(types.NewTypeName(token.NoPos, w.pkg, "E", nil), types.Universe.Lookup("any").Type())
		w.generic = types.NewNamed(types.NewTypeName(token.NoPos, w.pkg, "Box", nil), types.NewStruct(nil, nil), nil)
		w.generic.SetTypeParams([]*types.TypeParam{tp})
	}
	return w.generic
}

func (w *vWorld) order() []int {
	ids := make([]int, w.c.nT)
	for i := range ids {
		ids[i] = i
	}
	sort.Slice(ids, func(a, b int) bool {
		return types.TypeString(w.mk(ids[a]), nil) < types.TypeString(w.mk(ids[b]), nil)
	})
	return ids
}

func (w *vWorld) provider(p vProv) *Provider {
	if q, ok := w.provs[p.id]; ok {
		return q
	}
	q := &Provider{Pkg: w.pkg, Name: fmt.Sprintf("P%d", p.id), IsStruct: p.isStruct, Varargs: p.varargs,
		HasCleanup: p.hasCleanup, HasErr: p.hasErr}
	for k, a := range p.args {
		q.Args = append(q.Args, ProviderInput{Type: w.mk(a), FieldName: fmt.Sprintf("f%d", k)})
	}
	for _, o := range p.outs {
		q.Out = append(q.Out, w.mk(o))
	}
	w.provs[p.id] = q
	w.provID[q] = p.id
	return q
}

type setResult struct {
	set  *ProviderSet
	errs []error
	dep  int   // -1, or >= 0 when some import failed
	deps []int // ids of the failed imports
}

func (w *vWorld) buildSet(s vSet, done []setResult) setResult {
	var failed []int
	for _, i := range s.imports {
		if i >= len(done) {
			failed = append(failed, 0)
		} else if done[i].set == nil {
			failed = append(failed, w.c.sets[i].id)
		}
	}
	if len(failed) > 0 {
		return setResult{dep: 0, deps: failed}
	}
	set := &ProviderSet{PkgPath: "example.com/p", VarName: fmt.Sprintf("Set%d", s.id)}
	if s.hasArgs {
		set.VarName = ""
		vars := make([]*types.Var, len(s.args))
		for k, a := range s.args {
			vars[k] = types.NewParam(token.NoPos, w.pkg, fmt.Sprintf("a%d", k), w.mk(a))
		}
		set.InjectorArgs = &InjectorArgs{Name: "inj", Tuple: types.NewTuple(vars...)}
	}
	for _, i := range s.imports {
		set.Imports = append(set.Imports, done[i].set)
	}
	for _, p := range s.provs {
		set.Providers = append(set.Providers, w.provider(p))
	}
	for _, v := range s.vals {
		q := &Value{Out: w.mk(v.out), expr: ast.NewIdent(fmt.Sprintf("V%d", v.id))}
		w.valID[q] = v.id
		set.Values = append(set.Values, q)
	}
	for _, f := range s.flds {
		q := &Field{Parent: w.mk(f.parent), Name: fmt.Sprintf("F%d", f.id), Pkg: w.pkg}
		for _, o := range f.outs {
			q.Out = append(q.Out, w.mk(o))
		}
		w.fldID[q] = f.id
		set.Fields = append(set.Fields, q)
	}
	for _, b := range s.bnds {
		q := &IfaceBinding{Iface: w.mk(b.iface), Provided: w.mk(b.provided)}
		w.bndID[q] = b.id
		set.Bindings = append(set.Bindings, q)
	}
	w.setID[set] = s.id
	var errs []error
	set.providerMap, set.srcMap, errs = buildProviderMap(w.fset, w.hasher, set)
	if len(errs) > 0 {
		return setResult{errs: errs, dep: -1}
	}
	if errs := verifyAcyclic(set.providerMap, w.hasher); len(errs) > 0 {
		return setResult{errs: errs, dep: -1}
	}
	return setResult{set: set, dep: -1}
}

func (w *vWorld) tid(t types.Type) int {
	id, ok := w.strID[types.TypeString(t, nil)]
	if !ok {
		return 999999
	}
	return id
}

var (
	rePosPrefix = regexp.MustCompile(`^(?:[^\s:]+:\d+(?::\d+)?: )+`)
	reMulti     = regexp.MustCompile(`^(?:\S+ has )?multiple bindings for (.*)\ncurrent:`)
	reBindMiss  = regexp.MustCompile(`^wire\.Bind of concrete type "(.*)" to interface "(.*)", but .* does not include a provider for`)
	reCycle     = regexp.MustCompile(`^cycle for (.*):\n`)
	reNoProv    = regexp.MustCompile(`^no provider found for ([^\n]*?)(, output of injector)?(?:\n|$)`)
	reNeeded    = regexp.MustCompile(`\nneeded by (.*?) in `)
	reUnused    = regexp.MustCompile(`^unused (provider set|provider|value of type|interface binding to type|field) (.*)$`)
)

func natsStr(xs []int) string {
	ss := make([]string, len(xs))
	for i, x := range xs {
		ss[i] = strconv.Itoa(x)
	}
	return strings.Join(ss, ",")
}

// errStr classifies an error of the planner by its text (the harness controls all names).
func (w *vWorld) errStr(e error, s *vSet) string {
	// the text without its position prefix (no reliance on the fields of wireErr)
	msg := rePosPrefix.ReplaceAllString(e.Error(), "")
	if m := reMulti.FindStringSubmatch(msg); m != nil {
		return fmt.Sprintf("multi:%d", w.strID[m[1]])
	}
	if m := reBindMiss.FindStringSubmatch(msg); m != nil {
		return fmt.Sprintf("bindmissing:%d:%d", w.strID[m[2]], w.strID[m[1]])
	}
	if m := reCycle.FindStringSubmatch(msg); m != nil {
		lines := strings.Split(msg, "\n")[1:]
		var tr []int
		for _, l := range lines {
			l = strings.TrimSuffix(l, " ->")
			if k := strings.Index(l, " ("); k >= 0 {
				l = l[:k]
			}
			id, ok := w.strID[l]
			if !ok {
				return "unparsed-cycle:" + strconv.Quote(msg)
			}
			tr = append(tr, id)
		}
		return "cycle:" + natsStr(tr)
	}
	if m := reNoProv.FindStringSubmatch(msg); m != nil {
		var up []int
		for _, n := range reNeeded.FindAllStringSubmatch(msg, -1) {
			up = append(up, w.strID[n[1]])
		}
		if m[2] != "" && len(up) > 0 {
			return "unparsed:" + strconv.Quote(msg)
		}
		return fmt.Sprintf("noprov:%d:%s", w.strID[m[1]], natsStr(up))
	}
	if m := reUnused.FindStringSubmatch(msg); m != nil {
		arg, _ := strconv.Unquote(strings.TrimSpace(m[2]))
		switch m[1] {
		case "provider set":
			return "unusedset:" + strings.TrimPrefix(arg, "Set")
		case "provider":
			return "unusedprov:" + strings.TrimPrefix(arg, "p.P")
		case "value of type":
			// values are reported by type; map back through the set's direct values
			t := w.strID[m[2]]
			for _, v := range s.vals {
				if v.out == t {
					return fmt.Sprintf("unusedval:%d", v.id)
				}
			}
		case "interface binding to type":
			t := w.strID[m[2]]
			for _, b := range s.bnds {
				if b.iface == t {
					return fmt.Sprintf("unusedbnd:%d", b.id)
				}
			}
		case "field":
			// "unused field %q.%s": parent type quoted, then .Name
			k := strings.LastIndex(m[2], ".F")
			if k >= 0 {
				return "unusedfld:" + m[2][k+2:]
			}
		}
	}
	return "unparsed:" + strconv.Quote(msg)
}

func (w *vWorld) errsStr(errs []error, s *vSet) string {
	ss := make([]string, len(errs))
	for i, e := range errs {
		ss[i] = w.errStr(e, s)
	}
	sort.Strings(ss)
	return strings.Join(ss, " ")
}

func (w *vWorld) setStr(r setResult, s *vSet) string {
	if r.dep >= 0 {
		ss := make([]string, len(r.deps))
		for i, d := range r.deps {
			ss[i] = fmt.Sprintf("importfailed:%d", d)
		}
		sort.Strings(ss)
		return "err " + strings.Join(ss, " ")
	}
	if r.set == nil {
		return "err " + w.errsStr(r.errs, s)
	}
	var ents []string
	r.set.providerMap.Iterate(func(k types.Type, v interface{}) {
		pt := v.(*ProvidedType)
		var pay string
		switch {
		case pt.IsArg():
			pay = fmt.Sprintf("arg:%d", pt.Arg().Index)
		case pt.IsProvider():
			pay = fmt.Sprintf("prov:%d", w.provID[pt.Provider()])
		case pt.IsValue():
			pay = fmt.Sprintf("val:%d", w.valID[pt.Value()])
		case pt.IsField():
			pay = fmt.Sprintf("fld:%d", w.fldID[pt.Field()])
		default:
			pay = "nil"
		}
		src := "nosrc"
		if sv := r.set.srcMap.At(k); sv != nil {
			ps := sv.(*providerSetSrc)
			switch {
			case ps.InjectorArg != nil:
				src = fmt.Sprintf("arg:%d", ps.InjectorArg.Index)
			case ps.Import != nil:
				src = fmt.Sprintf("imp:%d", w.setID[ps.Import])
			case ps.Provider != nil:
				src = fmt.Sprintf("prov:%d", w.provID[ps.Provider])
			case ps.Value != nil:
				src = fmt.Sprintf("val:%d", w.valID[ps.Value])
			case ps.Field != nil:
				src = fmt.Sprintf("fld:%d", w.fldID[ps.Field])
			case ps.Binding != nil:
				src = fmt.Sprintf("bnd:%d", w.bndID[ps.Binding])
			}
		}
		ents = append(ents, fmt.Sprintf("%06d:%d:%s:%s", w.tid(k), w.tid(pt.Type()), pay, src))
	})
	if r.set.srcMap.Len() != r.set.providerMap.Len() {
		ents = append(ents, "srcmap-size-mismatch")
	}
	sort.Strings(ents)
	return strings.TrimRight("ok "+strings.Join(ents, " "), " ")
}

func (w *vWorld) callStr(c *call) string {
	var kind string
	src := -1
	switch c.kind {
	case funcProviderCall:
		kind = "func"
	case structProvider:
		kind = "struct"
	case valueExpr:
		kind = "value"
	case selectorExpr:
		kind = "field"
	}
	switch c.kind {
	case funcProviderCall, structProvider:
		src, _ = strconv.Atoi(strings.TrimPrefix(c.name, "P"))
	case valueExpr:
		if id, ok := c.valueExpr.(*ast.Ident); ok {
			src, _ = strconv.Atoi(strings.TrimPrefix(id.Name, "V"))
		}
	case selectorExpr:
		src, _ = strconv.Atoi(strings.TrimPrefix(c.name, "F"))
	}
	ins := make([]int, len(c.ins))
	for i, t := range c.ins {
		ins[i] = w.tid(t)
	}
	return fmt.Sprintf("%s:%d:%d:[%s]:[%s]:%d%d%d%d", kind, w.tid(c.out), src, natsStr(c.args), natsStr(ins),
		b2i(c.varargs), b2i(c.hasCleanup), b2i(c.hasErr), b2i(c.ptrToField))
}

// runPlannerCase runs the implementation on the case and renders the canonical reply.
func runPlannerCase(c *vCase) (req, reply string) {
	w := newWorld(c)
	req = c.request(w.order())
	var done []setResult
	for _, s := range c.sets {
		done = append(done, w.buildSet(s, done))
	}
	if !c.plan {
		parts := make([]string, len(done))
		for i := range done {
			parts[i] = fmt.Sprintf("set %d %s", c.sets[i].id, w.setStr(done[i], &c.sets[i]))
		}
		return req, strings.Join(parts, " | ")
	}
	last := done[len(done)-1]
	ls := &c.sets[len(c.sets)-1]
	if last.set == nil {
		return req, w.setStr(last, ls)
	}
	given := types.NewTuple()
	if last.set.InjectorArgs != nil {
		given = last.set.InjectorArgs.Tuple
	}
	calls, errs := solve(w.fset, w.mk(c.out), given, last.set)
	if len(errs) > 0 {
		return req, "err " + w.errsStr(errs, ls)
	}
	parts := make([]string, len(calls))
	for i := range calls {
		parts[i] = w.callStr(&calls[i])
	}
	return req, strings.TrimRight("ok "+strings.Join(parts, " "), " ")
}

// ---- generators -------------------------------------------------------------------------

func genTypeKinds(r *rand.Rand, nT int) (kind, base []int) {
	kind = make([]int, nT)
	base = make([]int, nT)
	taken := map[[2]int]bool{}
	var namedIDs []int
	for i := 0; i < nT; i++ {
		if i == 0 || len(namedIDs) == 0 || r.Intn(100) < 60 {
			namedIDs = append(namedIDs, i)
			continue
		}
		k := 1 + r.Intn(4)
		b := namedIDs[r.Intn(len(namedIDs))]
		if taken[[2]int{k, b}] {
			namedIDs = append(namedIDs, i)
			continue
		}
		taken[[2]int{k, b}] = true
		kind[i], base[i] = k, b
	}
	return
}

type vItem struct {
	kind string // prov val fld bnd arg
	p    vProv
	v    vVal
	f    vFld
	b    vBnd
	arg  int
	outs []int
	deps []int
}

// genRandomCase builds a mostly well-formed program (acyclic, one source per type, complete)
// and then, with small probabilities, plants each kind of defect.
func genRandomCase(r *rand.Rand, maxT int) *vCase {
	nT := 2 + r.Intn(maxT-1)
	c := &vCase{nT: nT, plan: true}
	c.kind, c.base = genTypeKinds(r, nT)
	covered := make([]bool, nT)
	srcOf := make([]int, nT) // item index providing type i, or -1
	for i := range srcOf {
		srcOf[i] = -1
	}
	var items []vItem
	nextID := 1
	id := func() int { nextID++; return nextID - 1 }
	pBack := 1
	if r.Intn(8) == 0 {
		pBack = 25
	}
	pNone := 98
	if r.Intn(6) == 0 {
		pNone = 90
	}
	pick := func(lo int, n int) []int {
		// n distinct dependencies, normally among types > lo (acyclic), rarely anywhere
		seen := map[int]bool{}
		var out []int
		for tries := 0; len(out) < n && tries < 20; tries++ {
			var d int
			if r.Intn(100) < pBack {
				d = r.Intn(nT)
			} else if lo+1 < nT {
				d = lo + 1 + r.Intn(nT-lo-1)
			} else {
				continue
			}
			if !seen[d] {
				seen[d] = true
				out = append(out, d)
			}
		}
		return out
	}
	for i := 0; i < nT; i++ {
		if covered[i] {
			continue
		}
		pairOK := i+1 < nT && !covered[i+1]
		x := r.Intn(100)
		var it vItem
		switch {
		case x < 40: // provider function
			it = vItem{kind: "prov", p: vProv{id: id(), args: pick(i, r.Intn(4)), outs: []int{i},
				varargs: r.Intn(6) == 0, hasCleanup: r.Intn(3) == 0, hasErr: r.Intn(3) == 0}}
			it.outs, it.deps = it.p.outs, it.p.args
		case x < 52 && pairOK: // struct provider S, *S
			it = vItem{kind: "prov", p: vProv{id: id(), args: pick(i+1, r.Intn(4)), outs: []int{i, i + 1}, isStruct: true}}
			it.outs, it.deps = it.p.outs, it.p.args
			covered[i+1] = true
		case x < 62: // value
			it = vItem{kind: "val", v: vVal{id: id(), out: i}, outs: []int{i}}
		case x < 74 && i+1 < nT: // field
			outs := []int{i}
			lo := i
			if pairOK && r.Intn(2) == 0 {
				outs = []int{i, i + 1}
				covered[i+1] = true
				lo = i + 1
			}
			par := pick(lo, 1)
			if len(par) == 0 {
				it = vItem{kind: "val", v: vVal{id: id(), out: i}, outs: outs}
				break
			}
			it = vItem{kind: "fld", f: vFld{id: id(), parent: par[0], outs: outs}, outs: outs, deps: par}
		case x < 84 && i+1 < nT: // binding
			d := pick(i, 1)
			if len(d) == 0 {
				it = vItem{kind: "arg", arg: i, outs: []int{i}}
				break
			}
			it = vItem{kind: "bnd", b: vBnd{id: id(), iface: i, provided: d[0]}, outs: []int{i}, deps: d}
		case x < pNone: // injector argument
			it = vItem{kind: "arg", arg: i, outs: []int{i}}
		default: // no source at all
			continue
		}
		for _, o := range it.outs {
			srcOf[o] = len(items)
		}
		items = append(items, it)
	}
	// reachability from the result type 0
	c.out = 0
	if r.Intn(20) == 0 {
		c.out = r.Intn(nT)
	}
	reach := map[int]bool{}
	var visit func(t int)
	visit = func(t int) {
		if reach[t] || srcOf[t] < 0 {
			reach[t] = true
			return
		}
		reach[t] = true
		for _, d := range items[srcOf[t]].deps {
			visit(d)
		}
	}
	visit(c.out)
	usedItem := make([]bool, len(items))
	for t := range reach {
		if srcOf[t] >= 0 {
			usedItem[srcOf[t]] = true
		}
	}
	// distribute over sets
	nSets := 1 + r.Intn(4)
	c.sets = make([]vSet, nSets)
	for k := range c.sets {
		c.sets[k].id = 100 + k
	}
	build := nSets - 1
	c.sets[build].hasArgs = true
	keepUnused := r.Intn(100) < 15
	place := make([]int, len(items))
	for k, it := range items {
		place[k] = r.Intn(nSets)
		if it.kind == "arg" {
			place[k] = build
		}
	}
	for k, it := range items {
		if it.kind == "bnd" && srcOf[it.b.provided] >= 0 && r.Intn(100) < 88 {
			place[k] = place[srcOf[it.b.provided]]
		}
	}
	for k, it := range items {
		if !usedItem[k] && !keepUnused {
			if it.kind == "arg" {
				continue // an unused injector parameter is legal: keep
			}
			if place[k] == build || r.Intn(2) == 0 {
				place[k] = -1 // drop
			}
		}
	}
	for k, it := range items {
		if place[k] < 0 {
			continue
		}
		s := &c.sets[place[k]]
		switch it.kind {
		case "prov":
			s.provs = append(s.provs, it.p)
		case "val":
			s.vals = append(s.vals, it.v)
		case "fld":
			s.flds = append(s.flds, it.f)
		case "bnd":
			s.bnds = append(s.bnds, it.b)
		case "arg":
			s.args = append(s.args, it.arg)
		}
	}
	// imports: every non-build set is imported by one later set (sometimes two, sometimes none)
	setUsed := make([]bool, nSets)
	for k := range items {
		if place[k] >= 0 && usedItem[k] {
			setUsed[place[k]] = true
		}
	}
	for k := 0; k < nSets-1; k++ {
		x := r.Intn(100)
		n := 1
		if x < 3 || (!setUsed[k] && !keepUnused) {
			n = 0
		} else if x < 6 {
			n = 2
		}
		for j := 0; j < n; j++ {
			into := k + 1 + r.Intn(nSets-1-k)
			c.sets[into].imports = append(c.sets[into].imports, k)
			setUsed[into] = true
		}
	}
	// planted duplicate source
	if r.Intn(100) < 6 && len(items) > 0 {
		it := items[r.Intn(len(items))]
		s := &c.sets[r.Intn(nSets)]
		switch it.kind {
		case "prov":
			s.provs = append(s.provs, it.p)
		case "val":
			s.vals = append(s.vals, vVal{id: id(), out: it.v.out})
		case "fld":
			s.flds = append(s.flds, vFld{id: id(), parent: it.f.parent, outs: it.f.outs})
		case "bnd":
			// mostly into the very set that holds the original binding: two bindings of one interface side by side
			target := s
			if r.Intn(3) != 0 {
				for k := range c.sets {
					for _, b := range c.sets[k].bnds {
						if b.id == it.b.id {
							target = &c.sets[k]
						}
					}
				}
			}
			target.bnds = append(target.bnds, vBnd{id: id(), iface: it.b.iface, provided: it.b.provided})
		case "arg":
			c.sets[build].args = append(c.sets[build].args, it.arg)
		}
	}
	// wrapper set: a named set that imports exactly one other set and adds only bindings to it
	if nSets >= 2 && r.Intn(100) < 12 {
		k := r.Intn(nSets - 1)
		var provided []int
		for _, p := range c.sets[k].provs {
			provided = append(provided, p.outs...)
		}
		for _, v := range c.sets[k].vals {
			provided = append(provided, v.out)
		}
		if len(provided) > 0 {
			// fresh interface types at the end of the type table
			nb := 1 + r.Intn(2)
			wrap := vSet{id: 200 + k, imports: []int{k}}
			for j := 0; j < nb; j++ {
				c.kind = append(c.kind, 0)
				c.base = append(c.base, 0)
				wrap.bnds = append(wrap.bnds, vBnd{id: id(), iface: c.nT, provided: provided[r.Intn(len(provided))]})
				c.nT++
			}
			// insert the wrapper right after k; later import indices shift by one
			ns := append([]vSet(nil), c.sets[:k+1]...)
			ns = append(ns, wrap)
			for _, s := range c.sets[k+1:] {
				for a := range s.imports {
					if s.imports[a] > k {
						s.imports[a]++
					}
				}
				ns = append(ns, s)
			}
			c.sets = ns
			nSets++
			build++
			// sometimes the build set uses the wrapper instead of (or in addition to) the base
			if r.Intn(2) == 0 {
				b := &c.sets[build]
				for a := range b.imports {
					if b.imports[a] == k {
						b.imports[a] = k + 1
					}
				}
			}
		}
	}
	// planted partial duplicate: a second source for one output of a two-output item (struct provider
	// S/*S, field F/*F), in an earlier or later position, the same or another set
	if r.Intn(100) < 6 {
		var two []vItem
		for _, it := range items {
			if len(it.outs) == 2 {
				two = append(two, it)
			}
		}
		if len(two) > 0 {
			it := two[r.Intn(len(two))]
			t := it.outs[r.Intn(2)]
			s := &c.sets[r.Intn(nSets)]
			switch r.Intn(3) {
			case 0:
				s.vals = append(s.vals, vVal{id: id(), out: t})
			case 1:
				s.provs = append(s.provs, vProv{id: id(), outs: []int{t}})
			default:
				c.sets[build].args = append(c.sets[build].args, t)
			}
		}
	}
	// shuffle the item lists (order independence is C10's business; the model follows the order)
	for k := range c.sets {
		s := &c.sets[k]
		r.Shuffle(len(s.provs), func(a, b int) { s.provs[a], s.provs[b] = s.provs[b], s.provs[a] })
		r.Shuffle(len(s.bnds), func(a, b int) { s.bnds[a], s.bnds[b] = s.bnds[b], s.bnds[a] })
		r.Shuffle(len(s.flds), func(a, b int) { s.flds[a], s.flds[b] = s.flds[b], s.flds[a] })
		r.Shuffle(len(s.vals), func(a, b int) { s.vals[a], s.vals[b] = s.vals[b], s.vals[a] })
		r.Shuffle(len(s.imports), func(a, b int) { s.imports[a], s.imports[b] = s.imports[b], s.imports[a] })
	}
	c.plan = r.Intn(8) != 0
	return c
}

// genGraphCase: one set whose providers realise the digraph given by adjacency bit masks.
// nodeKind[i]: 0 provider function, 1 field (uses the first successor as parent), 2 binding-
// aliased provider (an extra interface key nT+i bound to node i).
func genGraphCase(n int, adj []uint, nodeKind []int) *vCase {
	nT := n
	for i := 0; i < n; i++ {
		if nodeKind[i] == 2 {
			nT++
		}
	}
	c := &vCase{nT: nT, kind: make([]int, nT), base: make([]int, nT)}
	s := vSet{id: 100}
	extra := n
	for i := 0; i < n; i++ {
		var succ []int
		for j := 0; j < n; j++ {
			if adj[i]&(1<<uint(j)) != 0 {
				succ = append(succ, j)
			}
		}
		switch {
		case nodeKind[i] == 1 && len(succ) > 0:
			s.flds = append(s.flds, vFld{id: 10 + i, parent: succ[0], outs: []int{i}})
		default:
			s.provs = append(s.provs, vProv{id: 10 + i, args: succ, outs: []int{i}})
		}
		if nodeKind[i] == 2 {
			s.bnds = append(s.bnds, vBnd{id: 50 + i, iface: extra, provided: i})
			extra++
		}
	}
	c.sets = []vSet{s}
	return c
}

// ---- C10: permutation and regrouping variants ---------------------------------------------

func cloneCase(c *vCase) *vCase {
	d := *c
	d.sets = make([]vSet, len(c.sets))
	for i, s := range c.sets {
		t := s
		t.args = append([]int(nil), s.args...)
		t.imports = append([]int(nil), s.imports...)
		t.provs = append([]vProv(nil), s.provs...)
		t.vals = append([]vVal(nil), s.vals...)
		t.flds = append([]vFld(nil), s.flds...)
		t.bnds = append([]vBnd(nil), s.bnds...)
		d.sets[i] = t
	}
	return &d
}

// permVariant shuffles every argument list of every set.
func permVariant(r *rand.Rand, c *vCase) *vCase {
	d := cloneCase(c)
	for k := range d.sets {
		s := &d.sets[k]
		r.Shuffle(len(s.provs), func(a, b int) { s.provs[a], s.provs[b] = s.provs[b], s.provs[a] })
		r.Shuffle(len(s.bnds), func(a, b int) { s.bnds[a], s.bnds[b] = s.bnds[b], s.bnds[a] })
		r.Shuffle(len(s.flds), func(a, b int) { s.flds[a], s.flds[b] = s.flds[b], s.flds[a] })
		r.Shuffle(len(s.vals), func(a, b int) { s.vals[a], s.vals[b] = s.vals[b], s.vals[a] })
		r.Shuffle(len(s.imports), func(a, b int) { s.imports[a], s.imports[b] = s.imports[b], s.imports[a] })
	}
	return d
}

// flatVariant inlines every set reachable from the Build set into the Build set itself.
func flatVariant(c *vCase) *vCase {
	d := cloneCase(c)
	last := len(d.sets) - 1
	flat := vSet{id: d.sets[last].id, hasArgs: d.sets[last].hasArgs, args: d.sets[last].args}
	seen := map[int]bool{}
	var walk func(k int)
	walk = func(k int) {
		if seen[k] {
			return
		}
		seen[k] = true
		s := c.sets[k]
		flat.provs = append(flat.provs, s.provs...)
		flat.vals = append(flat.vals, s.vals...)
		flat.flds = append(flat.flds, s.flds...)
		flat.bnds = append(flat.bnds, s.bnds...)
		for _, i := range s.imports {
			walk(i)
		}
	}
	walk(last)
	d.sets = []vSet{flat}
	return d
}

// splitVariant moves a random subset of the Build set's non-binding items into a fresh nested set;
// a binding follows the provider of its concrete type.
func splitVariant(r *rand.Rand, c *vCase) *vCase {
	d := cloneCase(c)
	last := len(d.sets) - 1
	b := d.sets[last]
	nested := vSet{id: 900}
	keep := vSet{id: b.id, hasArgs: b.hasArgs, args: b.args, imports: b.imports}
	moved := map[int]bool{} // type ids whose source moved
	for _, p := range b.provs {
		if r.Intn(2) == 0 {
			nested.provs = append(nested.provs, p)
			for _, o := range p.outs {
				moved[o] = true
			}
		} else {
			keep.provs = append(keep.provs, p)
		}
	}
	for _, v := range b.vals {
		if r.Intn(2) == 0 {
			nested.vals = append(nested.vals, v)
			moved[v.out] = true
		} else {
			keep.vals = append(keep.vals, v)
		}
	}
	for _, f := range b.flds {
		if r.Intn(2) == 0 {
			nested.flds = append(nested.flds, f)
			for _, o := range f.outs {
				moved[o] = true
			}
		} else {
			keep.flds = append(keep.flds, f)
		}
	}
	for _, bd := range b.bnds {
		if moved[bd.provided] {
			nested.bnds = append(nested.bnds, bd)
		} else {
			keep.bnds = append(keep.bnds, bd)
		}
	}
	if len(nested.provs)+len(nested.vals)+len(nested.flds) == 0 {
		return nil
	}
	d.sets = append(append([]vSet(nil), d.sets[:last]...), nested)
	keep.imports = append(append([]int(nil), keep.imports...), last)
	d.sets = append(d.sets, keep)
	return d
}

// runMultiCase: several injectors over the same library sets and the same provider objects, analysed
// one after the other in one world (as one `wire` run does); each is compared with the model's
// independent evaluation, and finally every library set is rendered again: analysing one injector
// must leave no state that affects another.
func runMultiCase(r *rand.Rand, c *vCase, emit func(req, reply string)) {
	w := newWorld(c)
	last := len(c.sets) - 1
	var done []setResult
	for _, s := range c.sets[:last] {
		done = append(done, w.buildSet(s, done))
	}
	libs := append([]setResult(nil), done...)
	base := c.sets[last]
	// candidate result types: everything the closure mentions
	var cands []int
	for t := 0; t < c.nT; t++ {
		cands = append(cands, t)
	}
	k := 2 + r.Intn(2)
	for j := 0; j < k; j++ {
		cj := cloneCase(c)
		b := &cj.sets[last]
		b.id = base.id + j
		if j > 0 {
			cj.out = cands[r.Intn(len(cands))]
			if r.Intn(3) == 0 && len(b.provs) > 1 {
				b.provs = b.provs[:len(b.provs)-1]
			}
		}
		cj.plan = true
		wj := *w
		wj.c = cj
		res := wj.buildSet(*b, libs)
		req := cj.request(w.order())
		ls := b
		if res.set == nil {
			emit(req, wj.setStr(res, ls))
			continue
		}
		given := types.NewTuple()
		if res.set.InjectorArgs != nil {
			given = res.set.InjectorArgs.Tuple
		}
		calls, errs := solve(w.fset, w.mk(cj.out), given, res.set)
		if len(errs) > 0 {
			emit(req, "err "+wj.errsStr(errs, ls))
			continue
		}
		parts := make([]string, len(calls))
		for i := range calls {
			parts[i] = wj.callStr(&calls[i])
		}
		emit(req, strings.TrimRight("ok "+strings.Join(parts, " "), " "))
	}
	// the library sets, rendered after all injectors were analysed
	cs := cloneCase(c)
	cs.sets = cs.sets[:last]
	cs.plan = false
	if len(cs.sets) > 0 {
		parts := make([]string, len(libs))
		for i := range libs {
			parts[i] = fmt.Sprintf("set %d %s", cs.sets[i].id, w.setStr(libs[i], &cs.sets[i]))
		}
		emit(cs.request(w.order()), strings.Join(parts, " | "))
	}
}
