//go:build verif

package wire

import (
	"fmt"
	"go/ast"
	"go/token"
	"go/types"
	"math/rand"
	"regexp"
	"strings"
)

var (
	reAccUnexp    = regexp.MustCompile(`^uses unexported identifier (\w+)$`)
	reAccInternal = regexp.MustCompile(`^uses identifier (\w+) of the internal package`)
	reAccScope    = regexp.MustCompile(`^(\w+) is not declared in package scope$`)
	reAccSets     = regexp.MustCompile(`^sets unexported field (\w+)$`)
)

const accLib = `package lib
import "example.com/m/lib/internal/inner"
type T struct { X int; y int }
type u struct { Z int }
type W struct { inner.S; V int }
var Exp = 1
var unexp = 2
const K = 3
const k2 = 4
var Tv = T{}
var Uv = u{}
var In2 = inner.In
`

const accInner = `package inner
var In = 5
var in2 = 6
type S struct{ A int; b int }
type s2 struct{ C int }
var Sv = S{}
`

const accApp = `package app
var Own = 7
var own = 8
type O struct{ P int; q int }
var Ov = O{}
`

type accAtom struct{ pkg, expr string }

// expressions of type int, by the package they can be written in
var accAtoms = []accAtom{
	{"lib", "Exp"}, {"lib", "unexp"}, {"lib", "K"}, {"lib", "k2"}, {"lib", "Tv.X"}, {"lib", "Tv.y"}, {"lib", "T{1, 2}.X"}, {"lib", "T{X: 1}.X"},
	{"lib", "T{X: 1, y: 2}.y"}, {"lib", "T{}.X"}, {"lib", "u{3}.Z"}, {"lib", "Uv.Z"}, {"lib", "inner.In"},
	{"lib", "inner.S{A: 1}.A"}, {"lib", "inner.Sv.A"}, {"lib", "loc"}, {"lib", "int(Exp)"}, {"lib", "[]*T{{1, 2}}[0].X"}, {"lib", "[]T{{X: 1}}[0].X"},
	{"lib", "W{inner.S{A: 1}, 3}.V"}, {"lib", "W{V: 3}.A"}, {"lib", "map[string]T{\"a\": {1, 2}}[\"a\"].X"}, {"lib", "len2"},
	{"lib", "struct{ a int }{1}.a"}, {"lib", "struct{ A int }{A: 1}.A"}, {"lib", "*new(int)"},
	{"app", "lib.Exp"}, {"app", "lib.K"}, {"app", "lib.Tv.X"}, {"app", "lib.T{X: 1}.X"}, {"app", "lib.T{}.X"}, {"app", "Own"}, {"app", "own"},
	{"app", "O{1, 2}.P"}, {"app", "O{P: 1, q: 2}.q"}, {"app", "Ov.q"}, {"app", "loc"}, {"app", "lib.In2"}, {"app", "struct{ a int }{1}.a"},
	{"app", "[]*O{{1, 2}}[0].P"}, {"app", "lib.W{V: 1}.V"},
	{"sub", "inner.In"}, {"sub", "inner.S{A: 1}.A"}, {"sub", "lib.Exp"}, {"sub", "sv"}, {"sub", "Sv2"}, {"sub", "loc"},
}

// runAccessStreams: random int expressions over exported / unexported / local / internal-package identifiers and positional struct
// literals, written in one of three packages, type-checked, and handed to the real accessibleFrom for each of two target packages.
func runAccessStreams(out *vOut, r *rand.Rand, n int) {
	fset := token.NewFileSet()
	pkgIDs := map[string]int{"example.com/m/app": 0, "example.com/m/lib": 1, "example.com/m/lib/internal/inner": 2, "example.com/m/lib/sub": 3}
	inner, _, err := checkSrc(fset, "example.com/m/lib/internal/inner", accInner, nil, nil)
	if err != nil {
		panic(err)
	}
	imp := mapImporter{"example.com/m/lib/internal/inner": inner}
	libBase, _, err := checkSrc(fset, "example.com/m/lib", accLib, imp, nil)
	if err != nil {
		panic(err)
	}
	imp["example.com/m/lib"] = libBase
	for i := 0; i < n; i++ {
		w := []string{"lib", "lib", "app", "app", "sub"}[r.Intn(5)]
		var cands []accAtom
		for _, a := range accAtoms {
			if a.pkg == w {
				cands = append(cands, a)
			}
		}
		k := 1 + r.Intn(4)
		var parts []string
		for j := 0; j < k; j++ {
			parts = append(parts, cands[r.Intn(len(cands))].expr)
		}
		expr := strings.Join(parts, " + ")
		var src, path string
		switch w {
		case "lib":
			path = "example.com/m/lib"
			src = accLib + "var len2 = 9\nfunc holder(loc int) int { return " + expr + " }\n"
		case "app":
			path = "example.com/m/app"
			src = strings.Replace(accApp, "package app\n", "package app\nimport \"example.com/m/lib\"\nvar _ = lib.Exp\n", 1) + "func holder(loc int) int { return " + expr + " }\n"
		default:
			path = "example.com/m/lib/sub"
			src = "package sub\nimport (\n\t\"example.com/m/lib\"\n\t\"example.com/m/lib/internal/inner\"\n)\nvar _ = lib.Exp\nvar _ = inner.In\nvar sv = 1\nvar Sv2 = 2\n" +
				"func holder(loc int) int { return " + expr + " }\n"
		}
		info := &types.Info{
			Types:      map[ast.Expr]types.TypeAndValue{},
			Uses:       map[*ast.Ident]types.Object{},
			Defs:       map[*ast.Ident]types.Object{},
			Selections: map[*ast.SelectorExpr]*types.Selection{},
			Scopes:     map[ast.Node]*types.Scope{},
		}
		_, f, err := checkSrc(fset, path, src, imp, info)
		if err != nil {
			out.emit("access-skip "+strings.ReplaceAll(err.Error(), "\n", " "), "skip")
			continue
		}
		var node ast.Expr
		for _, d := range f.Decls {
			if fd, ok := d.(*ast.FuncDecl); ok && fd.Name.Name == "holder" {
				node = fd.Body.List[0].(*ast.ReturnStmt).Results[0]
			}
		}
		want := []string{"example.com/m/app", "example.com/m/lib", "example.com/m/lib/sub"}[r.Intn(3)]
		// abstraction of the expression: the nodes the walk looks at, in its order, with the go/types facts it reads
		names := map[string]int{}
		nameID := func(s string) int {
			if _, ok := names[s]; !ok {
				names[s] = len(names) + 1
			}
			return names[s]
		}
		var toks []string
		nn := 0
		ast.Inspect(node, func(nd ast.Node) bool {
			switch x := nd.(type) {
			case *ast.CompositeLit:
				t := info.TypeOf(x)
				if p, ok := t.Underlying().(*types.Pointer); ok {
					t = p.Elem()
				}
				var fs []string
				if st, ok := t.Underlying().(*types.Struct); ok && len(x.Elts) > 0 {
					if _, keyed := x.Elts[0].(*ast.KeyValueExpr); !keyed {
						for j := 0; j < st.NumFields() && j < len(x.Elts); j++ {
							fl := st.Field(j)
							pk := 9
							if fl.Pkg() != nil {
								pk = pkgIDs[fl.Pkg().Path()]
							} else {
								pk = 8
							}
							fs = append(fs, fmt.Sprintf("%d %d %d", nameID(fl.Name()), b2i(fl.Exported()), pk))
						}
					}
				}
				toks = append(toks, fmt.Sprintf("1 %d %s", len(fs), strings.Join(fs, " ")))
				nn++
			case *ast.Ident:
				obj := info.ObjectOf(x)
				scope, pk, impOK := 0, 9, 1
				switch {
				case obj == nil:
					scope = 0
				case isPkgName(obj):
					scope = 1
				case obj.Pkg() == nil:
					scope = 0
				default:
					pk = pkgIDs[obj.Pkg().Path()]
					switch {
					case obj.Parent() == nil:
						scope = 4
					case obj.Parent() == obj.Pkg().Scope():
						scope = 2
					default:
						scope = 3
					}
					impOK = b2i(importableFrom(obj.Pkg().Path(), want))
				}
				toks = append(toks, fmt.Sprintf("0 %d %d %d %d %d", nameID(x.Name), b2i(ast.IsExported(x.Name)), scope, pk, impOK))
				nn++
			}
			return true
		})
		req := strings.Join(strings.Fields(fmt.Sprintf("access %d %d %s", pkgIDs[want], nn, strings.Join(toks, " "))), " ")
		_, reply := guarded(func() (string, string) {
			err := accessibleFrom(info, node, want)
			if err == nil {
				return req, "ok"
			}
			msg := err.Error()
			for cls, re := range map[string]*regexp.Regexp{"unexported": reAccUnexp, "internal": reAccInternal, "notpkgscope": reAccScope, "setsunexported": reAccSets} {
				if m := re.FindStringSubmatch(msg); m != nil {
					return req, fmt.Sprintf("err %s %d", cls, nameID(m[1]))
				}
			}
			return req, "unparsed:" + msg
		}, func() string { return req })
		out.label = expr + " | written in " + w + " | for " + want
		out.emit(req, reply)
	}
}

func isPkgName(o types.Object) bool {
	_, ok := o.(*types.PkgName)
	return ok
}
