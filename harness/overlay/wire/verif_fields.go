//go:build verif

package wire

import (
	"fmt"
	"go/ast"
	"go/token"
	"go/types"
	"math/rand"
	"regexp"
	"strconv"
	"strings"
)

var (
	reNotField  = regexp.MustCompile(`is not a field of`)
	rePrevented = regexp.MustCompile(`is prevented from injecting by wire`)
	reNotString = regexp.MustCompile(`must be a string with the field name`)
	reTooMany   = regexp.MustCompile(`fields number exceeds`)
	reHidden    = regexp.MustCompile(`is unexported in package .* and cannot be set`)
)

// runFieldStreams: random struct types (fields whose names differ only in letter case, every tag
// variety) and field-name argument lists (interpreted, raw and escaped string literals, "*",
// non-literals) through the real processStructProvider and processFieldsOf.
func runFieldStreams(out *vOut, r *rand.Rand, n int) {
	pkg := types.NewPackage("example.com/p", "p")
	other := types.NewPackage("example.com/other", "other") // the struct type may be defined from another package's struct
	fset := token.NewFileSet()
	names := []string{"Foo", "foo", "FOO", "Bar", "bar", "baz", "X", "x", "Fo", "_", "_foo", "__", "_", "_Bar"}
	tags := []struct {
		tag       string
		prevented bool
	}{{"", false}, {`wire:"-"`, true}, {`json:"x"`, false}, {`json:"y" wire:"-"`, true}, {`wire:"x"`, false}, {`wire:"-" json:"z"`, true}, {`wire:""`, false}}
	nTypes := 4
	mkT := func(k int) types.Type {
		tn := types.NewNamed(types.NewTypeName(token.NoPos, pkg, fmt.Sprintf("F%d", k%nTypes), nil), types.NewStruct(nil, nil), nil)
		if k >= nTypes {
			return types.NewPointer(tn)
		}
		return tn
	}
	// one canonical instance per type id so that names are stable
	canon := make([]types.Type, 2*nTypes)
	for k := range canon {
		canon[k] = mkT(k)
	}
	strID := map[string]int{}
	for k, t := range canon {
		strID[types.TypeString(t, nil)] = k
	}
	for i := 0; i < n; i++ {
		nf := r.Intn(6)
		foreign := r.Intn(4) == 0
		perm := r.Perm(len(names))[:nf]
		var fields []*types.Var
		var tgs []string
		var decl []string
		for _, p := range perm {
			ty := r.Intn(2 * nTypes)
			tg := tags[r.Intn(len(tags))]
			// spell the type afresh: identity, not pointer equality, must decide
			var ft types.Type = canon[ty]
			if ty >= nTypes {
				ft = types.NewPointer(canon[ty-nTypes])
			}
			// one struct in four is `type S other.T`: its fields belong to package other, and the unexported ones
			// cannot be set from anywhere else
			fpkg := pkg
			if foreign {
				fpkg = other
			}
			// one field in three is an embedded one (go/types: Anonymous/Embedded): the selection rules treat it like any
			// other field.  The choice is a function of (case, name) and does not consume the stream's random numbers, so
			// the cases of older seeds stay as they were.
			embedded := (uint32(i)*2654435761+uint32(p)*40503)>>9%3 == 0
			fld := types.NewField(token.NoPos, fpkg, names[p], ft, embedded)
			fields = append(fields, fld)
			tgs = append(tgs, tg.tag)
			decl = append(decl, fmt.Sprintf("%s %d %d %d", eq(names[p]), ty, b2i(tg.prevented), b2i(foreign && !fld.Exported())))
		}
		st := types.NewStruct(fields, tgs)
		named := types.NewNamed(types.NewTypeName(token.NoPos, pkg, "S", nil), st, nil)
		// argument list
		var args []ast.Expr
		var atoks []string
		na := r.Intn(4)
		if r.Intn(5) == 0 {
			// every spelling of the string "*": interpreted, raw, escaped
			star := []string{`"*"`, "`*`", `"\x2a"`, `"*"`}[r.Intn(4)]
			args = append(args, &ast.BasicLit{Kind: token.STRING, Value: star})
			atoks = append(atoks, eq("*"))
			if r.Intn(4) != 0 {
				na = 0
			}
		}
		for k := 0; k < na; k++ {
			name := names[r.Intn(len(names))]
			if nf > 0 && r.Intn(3) != 0 {
				name = names[perm[r.Intn(nf)]]
			}
			switch r.Intn(8) {
			case 0:
				args = append(args, &ast.BasicLit{Kind: token.STRING, Value: "`" + name + "`"})
				atoks = append(atoks, eq(name))
			case 1:
				// escaped first character: "\x46oo"
				args = append(args, &ast.BasicLit{Kind: token.STRING, Value: fmt.Sprintf(`"\x%02x%s"`, name[0], name[1:])})
				atoks = append(atoks, eq(name))
			case 2:
				args = append(args, ast.NewIdent("fieldName"))
				atoks = append(atoks, "?")
			case 3:
				args = append(args, &ast.BasicLit{Kind: token.INT, Value: "1"})
				atoks = append(atoks, "?")
			default:
				args = append(args, &ast.BasicLit{Kind: token.STRING, Value: strconv.Quote(name)})
				atoks = append(atoks, eq(name))
			}
		}
		isFieldsOf := r.Intn(3) == 0
		mode := "struct"
		if isFieldsOf {
			mode = "fieldsof"
		}
		req := strings.TrimSpace(fmt.Sprintf("fields %s %d %s %s", mode, nf, strings.Join(decl, " "), strings.Join(atoks, " ")))
		req = strings.Join(strings.Fields(req), " ")
		identT := ast.NewIdent("S")
		identNew := ast.NewIdent("new")
		newCall := &ast.CallExpr{Fun: identNew, Args: []ast.Expr{identT}}
		fun := &ast.SelectorExpr{X: ast.NewIdent("wire"), Sel: ast.NewIdent("Struct")}
		call := &ast.CallExpr{Fun: fun, Args: append([]ast.Expr{newCall}, args...)}
		info := &types.Info{
			Types: map[ast.Expr]types.TypeAndValue{newCall: {Type: types.NewPointer(named)}},
			Uses:  map[*ast.Ident]types.Object{identT: named.Obj(), identNew: types.Universe.Lookup("new")},
			Defs:  map[*ast.Ident]types.Object{},
		}
		classify := func(err error) string {
			msg := err.Error()
			switch {
			case reNotField.MatchString(msg):
				return "err notfield"
			case rePrevented.MatchString(msg):
				return "err prevented"
			case reNotString.MatchString(msg):
				return "err notstring"
			case reTooMany.MatchString(msg):
				return "err toomany"
			case reHidden.MatchString(msg):
				return "err hidden"
			}
			if m := reDupArg.FindStringSubmatch(msg); m != nil {
				return fmt.Sprintf("err dup:%d", strID[m[1]])
			}
			return "unparsed:" + msg
		}
		_, reply := guarded(func() (string, string) {
			if isFieldsOf {
				if len(args) == 0 {
					return req, "skip"
				}
				fl, err := processFieldsOf(fset, info, call)
				if err != nil {
					return req, classify(err)
				}
				parts := []string{"ok"}
				for _, f := range fl {
					parts = append(parts, fmt.Sprintf("%s:%d", f.Name, strID[types.TypeString(f.Out[0], nil)]))
				}
				return req, strings.Join(parts, " ")
			}
			p, err := processStructProvider(fset, info, call)
			if err != nil {
				return req, classify(err)
			}
			parts := []string{"ok"}
			for _, a := range p.Args {
				parts = append(parts, fmt.Sprintf("%s:%d", a.FieldName, strID[types.TypeString(a.Type, nil)]))
			}
			return req, strings.Join(parts, " ")
		}, func() string { return req })
		if reply == "skip" {
			continue
		}
		out.emit(req, reply)
	}
}
