// Command irparse turns generated wire_gen.go files into a JSON IR (one object per file) that the
// e2e tier compares with the model's prediction.  Standard library only.
package main

import (
	"bytes"
	"encoding/json"
	"fmt"
	"go/ast"
	"go/parser"
	"go/printer"
	"go/token"
	"os"
	"strings"
)

type Stmt struct {
	Kind     string   `json:"kind"` // call struct value field iferr return other
	Lhs      []string `json:"lhs,omitempty"`
	Fn       string   `json:"fn,omitempty"`
	Args     []string `json:"args,omitempty"`
	Ellipsis bool     `json:"ellipsis,omitempty"`
	Addr     bool     `json:"addr,omitempty"`
	Type     string   `json:"type,omitempty"`
	Fields   []string `json:"fields,omitempty"` // "F:arg"
	Base     string   `json:"base,omitempty"`
	Sel      string   `json:"sel,omitempty"`
	Var      string   `json:"var,omitempty"`
	Cond     string   `json:"cond,omitempty"`
	Cleanups []string `json:"cleanups,omitempty"`
	Ret      []string `json:"ret,omitempty"`
	HasFunc  bool     `json:"hasfunc,omitempty"`
	Text     string   `json:"text,omitempty"`
}

type Func struct {
	Name     string   `json:"name"`
	Params   []string `json:"params"` // "name type"
	Variadic bool     `json:"variadic"`
	Results  []string `json:"results"`
	Doc      string   `json:"doc"`
	Body     []Stmt   `json:"body"`
	Recv     string   `json:"recv,omitempty"`
}

type File struct {
	Path    string            `json:"path"`
	Err     string            `json:"err,omitempty"`
	Header  string            `json:"header"`
	Package string            `json:"package"`
	Imports []string          `json:"imports"` // `name "path"` / `"path"`
	Funcs   []Func            `json:"funcs"`
	Vars    map[string]string `json:"vars"`
	Decls   []string          `json:"decls"` // printed non-func, non-import, non-var declarations + other funcs in order
	Order   []string          `json:"order"` // top-level order: func:Name, var, decl
}

var fset = token.NewFileSet()

func text(n ast.Node) string {
	var b bytes.Buffer
	printer.Fprint(&b, fset, n)
	return b.String()
}

func exprs(es []ast.Expr) []string {
	out := make([]string, len(es))
	for i, e := range es {
		out[i] = text(e)
	}
	return out
}

func cleanupCalls(list []ast.Stmt) ([]string, []ast.Stmt) {
	var cs []string
	i := 0
	for ; i < len(list); i++ {
		es, ok := list[i].(*ast.ExprStmt)
		if !ok {
			break
		}
		c, ok := es.X.(*ast.CallExpr)
		if !ok || len(c.Args) != 0 {
			break
		}
		cs = append(cs, text(c.Fun))
	}
	return cs, list[i:]
}

func retStmt(r *ast.ReturnStmt) Stmt {
	s := Stmt{Kind: "return"}
	for _, e := range r.Results {
		if fl, ok := e.(*ast.FuncLit); ok {
			s.HasFunc = true
			cs, rest := cleanupCalls(fl.Body.List)
			s.Cleanups = cs
			if len(rest) != 0 {
				s.Text = "unexpected statements in cleanup closure"
			}
			s.Ret = append(s.Ret, "func")
			continue
		}
		s.Ret = append(s.Ret, text(e))
	}
	return s
}

func stmt(st ast.Stmt) Stmt {
	switch st := st.(type) {
	case *ast.AssignStmt:
		if st.Tok == token.DEFINE && len(st.Rhs) == 1 {
			lhs := exprs(st.Lhs)
			rhs := st.Rhs[0]
			addr := false
			if u, ok := rhs.(*ast.UnaryExpr); ok && u.Op == token.AND {
				addr = true
				rhs = u.X
			}
			switch r := rhs.(type) {
			case *ast.CallExpr:
				if !addr {
					return Stmt{Kind: "call", Lhs: lhs, Fn: text(r.Fun), Args: exprs(r.Args), Ellipsis: r.Ellipsis.IsValid()}
				}
			case *ast.CompositeLit:
				s := Stmt{Kind: "struct", Lhs: lhs, Addr: addr, Type: text(r.Type)}
				for _, el := range r.Elts {
					if kv, ok := el.(*ast.KeyValueExpr); ok {
						s.Fields = append(s.Fields, text(kv.Key)+":"+text(kv.Value))
					} else {
						s.Fields = append(s.Fields, "?:"+text(el))
					}
				}
				return s
			case *ast.Ident:
				if !addr {
					return Stmt{Kind: "value", Lhs: lhs, Var: r.Name}
				}
			case *ast.SelectorExpr:
				return Stmt{Kind: "field", Lhs: lhs, Addr: addr, Base: text(r.X), Sel: r.Sel.Name}
			}
		}
	case *ast.IfStmt:
		s := Stmt{Kind: "iferr", Cond: text(st.Cond)}
		if st.Init != nil || st.Else != nil {
			s.Text = "unexpected if form"
		}
		cs, rest := cleanupCalls(st.Body.List)
		s.Cleanups = cs
		if len(rest) == 1 {
			if r, ok := rest[0].(*ast.ReturnStmt); ok {
				s.Ret = exprs(r.Results)
				return s
			}
		}
		s.Text = "unexpected error branch"
		return s
	case *ast.ReturnStmt:
		return retStmt(st)
	}
	return Stmt{Kind: "other", Text: text(st)}
}

func parseFile(path string) File {
	out := File{Path: path, Vars: map[string]string{}}
	src, err := os.ReadFile(path)
	if err != nil {
		out.Err = err.Error()
		return out
	}
	f, err := parser.ParseFile(fset, path, src, parser.ParseComments)
	if err != nil {
		out.Err = err.Error()
		return out
	}
	out.Package = f.Name.Name
	out.Header = string(src[:fset.Position(f.Package).Offset])
	for _, im := range f.Imports {
		s := im.Path.Value
		if im.Name != nil {
			s = im.Name.Name + " " + s
		}
		out.Imports = append(out.Imports, s)
	}
	for _, d := range f.Decls {
		switch d := d.(type) {
		case *ast.FuncDecl:
			fn := Func{Name: d.Name.Name}
			if d.Doc != nil {
				fn.Doc = strings.TrimSpace(d.Doc.Text())
			}
			if d.Recv != nil {
				fn.Recv = text(d.Recv.List[0].Type)
			}
			for _, p := range d.Type.Params.List {
				t := text(p.Type)
				if _, ok := p.Type.(*ast.Ellipsis); ok {
					fn.Variadic = true
				}
				if len(p.Names) == 0 {
					fn.Params = append(fn.Params, " "+t)
				}
				for _, n := range p.Names {
					fn.Params = append(fn.Params, n.Name+" "+t)
				}
			}
			if d.Type.Results != nil {
				for _, r := range d.Type.Results.List {
					k := len(r.Names)
					if k == 0 {
						k = 1
					}
					for i := 0; i < k; i++ {
						fn.Results = append(fn.Results, text(r.Type))
					}
				}
			}
			if d.Body != nil {
				for _, st := range d.Body.List {
					fn.Body = append(fn.Body, stmt(st))
				}
			}
			out.Funcs = append(out.Funcs, fn)
			out.Order = append(out.Order, "func:"+fn.Name)
			out.Decls = append(out.Decls, text(d))
		case *ast.GenDecl:
			if d.Tok == token.IMPORT {
				continue
			}
			if d.Tok == token.VAR {
				for _, sp := range d.Specs {
					vs := sp.(*ast.ValueSpec)
					for i, n := range vs.Names {
						if i < len(vs.Values) {
							out.Vars[n.Name] = text(vs.Values[i])
						}
					}
				}
			}
			out.Order = append(out.Order, strings.ToLower(d.Tok.String()))
			out.Decls = append(out.Decls, text(d))
		}
	}
	return out
}

func main() {
	var files []File
	for _, p := range os.Args[1:] {
		files = append(files, parseFile(p))
	}
	enc := json.NewEncoder(os.Stdout)
	if err := enc.Encode(files); err != nil {
		fmt.Fprintln(os.Stderr, err)
		os.Exit(1)
	}
}
