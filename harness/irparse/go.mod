module irparse

go 1.21
