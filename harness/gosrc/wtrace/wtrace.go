// Package wtrace is the run-time instrumentation linked into generated test programs:
// providers report their calls, argument identities, cleanups; a fault plan makes chosen
// providers fail.
package wtrace

import (
	"fmt"
	"reflect"
	"strings"
)

// E is the error type returned by failing providers; one value per provider name, so that
// the driver can check that the injector returns *that very* error (pointer identity).
type E struct{ Name string }

func (e *E) Error() string { return "injected failure in " + e.Name }

var (
	next   = 100
	lines  []string
	errs   = map[string]*E{}
	FailOn = map[string]bool{} // provider names that fail in the current plan
)

func Reset() { lines = nil; next = 100; FailOn = map[string]bool{} }

func Fresh() int { next++; return next }

func ErrFor(name string) *E {
	if e, ok := errs[name]; ok {
		return e
	}
	e := &E{Name: name}
	errs[name] = e
	return e
}

func Log(s string) { lines = append(lines, s) }

func Lines() []string { return lines }

// Call records a provider call and decides whether it fails under the current plan.
func Call(name string, args ...string) (int, error) {
	if FailOn[name] {
		Log(fmt.Sprintf("call %s(%s) -> FAIL", name, strings.Join(args, " | ")))
		return 0, ErrFor(name)
	}
	id := Fresh()
	Log(fmt.Sprintf("call %s(%s) -> #%d", name, strings.Join(args, " | "), id))
	return id, nil
}

type descer interface{ WDesc() string }

// D describes a value by identity: provider-made values carry their id, struct-provider-made
// values list their fields, nil pointers and nil interfaces are "nil".
func D(v interface{}) string {
	if v == nil {
		return "nil"
	}
	rv := reflect.ValueOf(v)
	switch rv.Kind() {
	case reflect.Ptr:
		if rv.IsNil() {
			return "nil"
		}
		if d, ok := v.(descer); ok {
			return "&" + strings.TrimPrefix(d.WDesc(), "&")
		}
		return "&" + D(rv.Elem().Interface())
	case reflect.Slice:
		if rv.IsNil() {
			return "nil"
		}
		parts := make([]string, rv.Len())
		for i := range parts {
			parts[i] = D(rv.Index(i).Interface())
		}
		return "[" + strings.Join(parts, ",") + "]"
	}
	if d, ok := v.(descer); ok {
		return d.WDesc()
	}
	return fmt.Sprintf("%v", v)
}

// Fields lists the exported fields of a struct value other than ID, in declaration
// order, as name=description pairs.
func Fields(x interface{}) string {
	rv := reflect.ValueOf(x)
	var parts []string
	for i := 0; i < rv.NumField(); i++ {
		f := rv.Type().Field(i)
		if f.Name == "ID" || f.PkgPath != "" {
			continue
		}
		parts = append(parts, f.Name+"="+D(rv.Field(i).Interface()))
	}
	return strings.Join(parts, ";")
}

// Addr renders a pointer for alias checks.
func Addr(p interface{}) string { return fmt.Sprintf("%p", p) }
