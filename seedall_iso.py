#!/usr/bin/env python3
"""seedall_iso.py [seed-name…] — every seeded change (default: all under /verif/seeded) against its property's check, in a
snapshot copy of /verif and a scratch worktree of /repo's HEAD, so that it can run next to other work.  One line per seed:
INPUT (violation with a concrete input), NOINPUT (only a broken obligation / correspondence), MISSED."""
import json
import os
import shutil
import subprocess
import sys
import tempfile


def sh(cmd, **kw):
    return subprocess.run(cmd, shell=True, capture_output=True, text=True, **kw)


def main():
    names = sys.argv[1:] or sorted(os.listdir("/verif/seeded"))
    base = tempfile.mkdtemp(prefix="seedall.")
    wt, home = base + "/repo", base + "/verif"
    out = {}
    try:
        assert sh("git -C /repo worktree add -q --detach %s HEAD" % wt).returncode == 0
        sh("cp -r /verif %s" % home)
        shutil.rmtree(home + "/replays", ignore_errors=True)
        env = dict(os.environ, VERIF_HOME=home, VERIF_REPO=wt)
        for s in names:
            d = "/verif/seeded/" + s
            prop = json.load(open(d + "/meta.json"))["property"]
            r = sh("git -C %s apply %s/patch.diff" % (wt, d))
            if r.returncode != 0:
                print(s, "PATCH-DOES-NOT-APPLY", flush=True)
                continue
            r = subprocess.run([home + "/check", prop, "--tier", "quick"], capture_output=True, text=True, env=env, cwd=home)
            lines = [l for l in r.stdout.split("\n") if l.startswith("VIOLATION")]
            if any("no-failing-input-found" not in l for l in lines):
                v = "INPUT"
            elif lines:
                v = "NOINPUT"
            else:
                v = "MISSED (exit %d)" % r.returncode
            out[s] = v
            print(s, v, flush=True)
            sh("git -C %s checkout -- . ; git -C %s clean -fdq" % (wt, wt))
        # the unchanged tree, all properties, in the same snapshot
        for p in ["C%02d" % i for i in range(1, 21)]:
            r = subprocess.run([home + "/check", p, "--tier", "quick"], capture_output=True, text=True, env=env, cwd=home)
            n = sum(1 for l in r.stdout.split("\n") if l.startswith("VIOLATION"))
            print("unchanged", p, "exit", r.returncode, "violations", n, flush=True)
    finally:
        sh("git -C /repo worktree remove --force %s" % wt)
        shutil.rmtree(base, ignore_errors=True)
        sh("git -C /repo worktree prune")
    return 0


if __name__ == "__main__":
    sys.exit(main())
