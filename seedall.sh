#!/bin/bash
# seedall.sh — every seeded change against its property's check (quick tier); prints one line per seed
cd /verif
for d in seeded/*/; do
  s=$(basename $d)
  r=$(./seedcheck.py /verif/seeded/$s 2>&1 | tail -1)
  case "$r" in
    *"exit 1"*"no-failing-input-found"*) v=$(echo "$r" | grep -o "VIOLATION[^']*" | grep -vc no-failing); if [ "$v" -gt 0 ]; then echo "$s INPUT"; else echo "$s NOINPUT"; fi;;
    *"exit 1"*) echo "$s INPUT";;
    *) echo "$s MISSED :: $r";;
  esac
done
