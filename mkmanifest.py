#!/usr/bin/env python3
"""Regenerates MANIFEST.json from the table below (kept in one place so it stays valid)."""
import json

CLAIMED = {
 "C02": ("proof", "planner wiring: Lean theorems over the `solve` machine model + in-process correspondence with the real solve + independent wiring oracle", "5/C02"),
 "C05": ("proof", "duplicate detection: Lean theorems over the buildProviderMap model + in-process correspondence + duplicate oracle", "5/C05"),
 "C06": ("proof", "missing-dependency rejection: Lean theorems over the solve model + correspondence + reachability oracle", "5/C06"),
 "C07": ("proof", "cycle detection and termination: Lean theorems over the verifyAcyclic stack machine (termination, soundness, completeness) + exhaustive small-digraph correspondence", "5/C07"),
 "C08": ("proof", "unused-item reporting: Lean theorems over solve/verifyArgsUsed model + correspondence + contribution oracle", "5/C08"),
 "C10": ("proof", "order/grouping independence: Lean theorems (bpm_ok_iff, bpm_perm, chained-binding counterexample) + permuted/flattened/split variants through the real planner", "5/C10"),
 "C14": ("proof", "generated identifiers: Lean theorems (freshness/termination of disambiguate and typeVariableName for every finite scope, distinctness of all binders of an injector, import/value-variable names) + unit-tier name streams + e2e adversarial renaming with by-name comparison of every binder and compile/run", "5/C14"),
 "C17": ("proof", "command contract: Lean theorems over genExec/diffExec (exit status iff, writes only, failed untouched, isolation, diff 0/1/2) + exit-status tables regenerated from cmd/wire/main.go and closed by decide + black-box runs of the real binary with full-tree hashes", "5/C17"),
 "C18": ("proof", "history independence: Lean theorems over the history machine runH under H-iso (regen_fresh for variants with output, idempotence, diff-after-gen, read-only; witness for the no-injector case D11) + random histories on the real binary compared step by step", "5/C18"),
 "C20": ("proof", "front-end totality: regenerated tables of copyAST node kinds and zeroValue type kinds closed by decide (every go/ast node kind has a case; every typed basic kind and every underlying kind has a zero value) + ~360 type-correct spellings (marker arguments, struct shapes, provider-set variable forms, result kinds, injector shapes) run through the real gen, check and show (no panic; positioned diagnostic)", "5/C20"),
 "C12": ("proof", "field selection: Lean theorems over checkField/allFields/structProviderArgs/fieldsOfArgs (exact names, declaration/written order, prevented and unknown rejected, duplicate types) + unit-tier streams through the real processStructProvider/processFieldsOf + e2e run-time inspection of constructed structs and field-pointer aliasing", "5/C12"),
 "C13": ("proof", "value whitelist and accessibility: Lean model of accessibleFrom (accepted iff every identifier and positionally set field is nameable from the target package; first offending node reported) tied by the access stream; copyAST completeness over expression kinds (regenerated tables); Lean theorem that an accepted expression tree contains no non-conversion call, receive or function literal, over the whitelist regenerated from processValue + per-expression e2e over 54 fixed forms and random nested expressions with the unsafe part at any position (verdict vs model and vs oracle, value = home evaluation, same value on every call, no function ran)", "5/C13"),
 "C15": ("proof", "copied declarations: regenerated copyAST field tables closed by decide + Lean model of the renaming pass (WireV.renameOccs: totality, consistency per object, freshness, injectivity) tied to the real rewritePkgRefs by a correspondence stream over random type-checked packages with a binding oracle (copies re-type-checked, identifier-by-identifier entity comparison) + declaration corpus and 25x8 collision matrix copied, compiled, vetted and executed against the originals", "5/C15"),
 "C16": ("proof", "determinism/layout: Lean theorems on vendor stripping (canonical form for every prefix, idempotence) and permutation-invariance of the sorted import block + unit-tier path streams + byte-equality across repeats, locations, invocation forms and module/GOPATH/vendor layouts", "5/C16"),
 "C01": ("proof", "compilable output: IR-level well-formedness theorems (definition before use, argument types = binding-resolved parameter types, one call per constructed type, every local used, binder distinctness, declared signature, zero-value and copy totality, the internal-package import rule) + every accepted generated package compiled with go build and each injector assigned to a variable of its declared function type + unusual spellings accepted by wire compiled + internal-package layouts + importableFrom/unvendor correspondence stream", "5/C01"),
 "C19": ("proof", "check/show: Lean theorems over the gather machine (termination, partition, inputs = leaf requirements, merged groups, order freedom) + regenerated call facts (Load and inject run the same stages) + real gather through an overlay of cmd/wire + declarative grouping oracle (inputs = unprovided types reachable through the unique sources) + check-vs-gen exit/error classes and parsed `wire show` output on generated programs", "5/C19"),
 "C11": ("proof", "binding aliasing in map and planner: Lean theorems + unit-tier correspondence + e2e run-time identity traces; front half: Lean model of processBind / processInterfaceValue with the method-set rule (value/pointer receivers, promotion, shadowing, ambiguity), acceptance characterised exactly, tied by the bind stream (real functions on type-checked random declarations) and the Bind matrix under three import forms", "5/C11"),
 "C03": ("proof", "zero-value literals per type kind (regenerated zeroValue tables, zero_basic_right / zero_cases_right); error-branch structure and unwinding: Lean theorems over the emission/execution model for every call list and fault plan + IR of every generated injector + run-time traces under every single-failure plan", "5/C03"),
 "C04": ("proof", "aggregated cleanup: Lean theorems over the emission/execution model + IR closure bodies + run-time traces", "5/C04"),
 "C09": ("proof", "signature rules: Lean theorems over funcOutput/dupParam/sigErrors models + exhaustive correspondence over result-list shapes", "5/C09"),
}
TECH = "Lean 4 theorems about an executable model + differential correspondence with the real code (overlay harness)"
ALL = ["C%02d" % i for i in range(1, 21)]
READY = {"C01", "C19", "C02", "C03", "C04", "C05", "C06", "C07", "C08", "C09", "C10", "C11", "C14", "C12", "C13", "C15", "C16", "C17", "C18", "C20"}   # properties whose Props module has proved theorems
CLAIMED = {k: v for k, v in CLAIMED.items() if k in READY}

def main():
    checks = []
    for p in ALL:
        if p not in CLAIMED:
            continue
        cat, text, ref = CLAIMED[p]
        checks.append({
            "property_id": p,
            "quick_cmd": "./check %s --tier quick" % p,
            "thorough_cmd": "./check %s --tier thorough" % p,
            "evidence_file": "/verif/evidence/%s.json" % p,
            "replay_cmd_template": "./check %s --replay {path}" % p,
            "engine": "lean-model+correspondence",
            "level_claimed": {"category": cat, "text": text, "design_ref": "DESIGN.md §" + ref},
            "level_note": "Trusted: Lean 4.33 kernel (axioms propext, Classical.choice, Quot.sound only, audited per run); "
                          "the hand-written model is tied to /repo by the correspondence harness (overlay build of internal/wire with tag verif) "
                          "and regenerated fact tables; go/types, go/packages, Go compiler/runtime are modelled, not verified.",
            "technique": TECH,
        })
    m = {
        "version": 1,
        "setup_cmd": "cd /verif && ./setup.sh",
        "hooks": {
            "guard": "verif",
            "enable": "cd /repo && go build -tags verif -overlay /verif/.build/overlay.json ./cmd/wireverif  (harness files live in /verif/harness/overlay and are injected with -overlay; nothing is committed to /repo)",
            "baseline_off_cmd": "cd /repo && GOFLAGS=-mod=mod GOPROXY=off go test -json -vet=off -count=1 ./...",
            "source_commits": [],
            "add_only": True,
        },
        "engines": [{"name": "lean-model+correspondence", "path": "/verif/check",
                     "serves_properties": sorted(CLAIMED),
                     "kind_free_text": "Lean 4 model + theorems (lean/), Go overlay harness (harness/), Python driver (vlib/)"}],
        "checks": checks,
        "notes": "See DESIGN.md. Known genuine defects of the pinned tree are listed in known_findings.json.",
        "not_applicable": [{"property_id": p, "reason": "check not built yet in this round (in progress; see DESIGN.md §12)"}
                           for p in ALL if p not in CLAIMED],
    }
    json.dump(m, open("/verif/MANIFEST.json", "w"), indent=1)

if __name__ == "__main__":
    main()
