"""C14: package-level declarations of the injector's package that are named like *predeclared* identifiers (nil, false,
true, string, error).  Such a package is type-correct Go (perverse, but legal); the generated file spells `nil`, `false`,
the basic type names and the value expressions of other packages without checking what those names mean in the
injector's package.  Finding D40 (known, not repaired): each scenario states what the property demands; the listed
symptom is reported as KNOWN-FINDING, anything else as a violation."""
import os
import re

from .cmdtier import Workspace, panicked, MOD
from .common import GOENV, run

HDR = "//go:build wireinject\n// +build wireinject\n\npackage %s\n\nimport (\n\t\"github.com/google/wire\"\n%s)\n\n"

SCENARIOS = {
    # name: (files, main body printing one line, expected line, symptom class when D40 strikes)
    "nil-var": ({
        "a.go": "package nilvar\n\ntype T struct{ N int }\n\nfunc NewT() (*T, error) {\n\tvar e error\n\treturn &T{N: 1}, e\n}\n\nvar nil = 0\n\nvar _ = nil\n",
        "wire.go": HDR % ("nilvar", "") + "func Init() (*T, error) {\n\tpanic(wire.Build(NewT))\n}\n"},
        'v, err := nilvar.Init(); fmt.Println("nil-var", v.N, err)', "nil-var 1 <nil>", "compile"),
    "false-const": ({
        "a.go": "package falseconst\n\nimport \"errors\"\n\nvar ErrNo = errors.New(\"no\")\n\ntype Dep struct{}\n\nfunc NewDep() (Dep, error) { return Dep{}, ErrNo }\n\n"
                "func NewFlag(Dep) bool { return 1 == 1 }\n\nconst false = 1 == 1\n\nvar _ = false\n",
        "wire.go": HDR % ("falseconst", "") + "func Init() (bool, error) {\n\tpanic(wire.Build(NewDep, NewFlag))\n}\n"},
        'v, err := falseconst.Init(); fmt.Println("false-const", v, err)', "false-const false no", "behaviour"),
    "true-value": ({
        "lib/lib.go": "package lib\n\nimport \"github.com/google/wire\"\n\ntype Verbose bool\n\nvar Set = wire.NewSet(wire.Value(Verbose(true)))\n",
        "a.go": "package truevalue\n\nconst true = 0 != 0\n\nvar _ = true\n",
        "wire.go": HDR % ("truevalue", "\t\"%s/truevalue/lib\"\n" % MOD) + "func Init() lib.Verbose {\n\tpanic(wire.Build(lib.Set))\n}\n"},
        'fmt.Println("true-value", truevalue.Init())', "true-value true", "behaviour"),
    "string-type": ({
        "lib/lib.go": "package lib\n\ntype Name = string\n\nfunc NewName() Name { return \"n\" }\n",
        "a.go": "package stringtype\n\ntype string struct{ X int }\n\nvar _ string\n",
        "wire.go": HDR % ("stringtype", "\t\"%s/stringtype/lib\"\n" % MOD) + "func Init() lib.Name {\n\tpanic(wire.Build(lib.NewName))\n}\n"},
        'fmt.Println("string-type", stringtype.Init())', "string-type n", "compile"),
    # control: the same shapes without the redeclaration must simply work
    "control": ({
        "a.go": "package control\n\ntype T struct{ N int }\n\nfunc NewT() (*T, error) {\n\tvar e error\n\treturn &T{N: 1}, e\n}\n",
        "wire.go": HDR % ("control", "") + "func Init() (*T, error) {\n\tpanic(wire.Build(NewT))\n}\n"},
        'v, err := control.Init(); fmt.Println("control", v.N, err)', "control 1 <nil>", None),
}


def run_universe(rep, tier):
    """-> (disagreements, failures, ids of known findings observed)"""
    ws = Workspace()
    fails, known = [], set()
    try:
        for name, (files, _, _, _) in SCENARIOS.items():
            pkg = name.replace("-", "")
            for f, content in files.items():
                p = "%s/%s/%s" % (ws.root, pkg, f)
                os.makedirs(os.path.dirname(p), exist_ok=True)
                open(p, "w").write(content)
        rc, out, err = run(["go", "vet", "-tags", "wireinject", "./..."], cwd=ws.root, env=dict(GOENV), timeout=300)
        if rc != 0:
            return [], [{"stream": "c14-universe", "why": ["the scenario packages are not type-correct Go (harness problem): " + (out + err)[-400:]]}], known
        for name, (files, stmt, want, symptom) in SCENARIOS.items():
            pkg = name.replace("-", "")
            rep.evaluations += 1
            rep.nontrivial.add("universe/" + name)
            rc, out, err = ws.wire(["gen", "./" + pkg])
            if panicked(err):
                fails.append({"stream": "c14-universe", "why": ["wire panicked on scenario %s: %s" % (name, err[-300:])]})
                continue
            if rc != 0:
                # a positioned refusal would satisfy the property as well
                if not re.search(r"\.go:\d+:\d+", err):
                    fails.append({"stream": "c14-universe", "why": ["scenario %s rejected without a positioned diagnostic: %s" % (name, err[-300:])]})
                continue
            d = ws.root + "/cmd/u" + pkg
            os.makedirs(d, exist_ok=True)
            open(d + "/main.go", "w").write('package main\n\nimport (\n\t"fmt"\n\n\t"%s/%s"\n)\n\nfunc main() {\n\t%s\n}\n' % (MOD, pkg, stmt))
            rc2, out2, err2 = run(["go", "run", "./cmd/u" + pkg], cwd=ws.root, env=dict(GOENV), timeout=300)
            got = out2.strip()
            if rc2 == 0 and got == want:
                continue
            observed = "compile" if rc2 != 0 and "wire_gen.go" in (out2 + err2) else ("behaviour" if rc2 == 0 else "other")
            msg = ("scenario %s: wire gen succeeded, but %s" % (name, ("the package does not compile: " + (out2 + err2).strip()[-300:])
                                                              if rc2 != 0 else "the injector yields %r, the sources say %r" % (got, want)))
            if symptom is not None and observed == symptom:
                known.add("D40")
                rep.coverage.setdefault("universe_known", []).append(msg[:200])
            else:
                fails.append({"stream": "c14-universe", "why": [msg], "files": files, "wire_gen.go": (ws.read(pkg) or "")[:2000]})
    finally:
        ws.close()
    return [], fails, known
