"""C11: the interface/implementation matrix of wire.Bind and wire.InterfaceValue (Go's method-set rules)."""
import os
import re

from .cmdtier import Workspace, panicked, MOD
from .common import GOENV, run

TYPES = '''package {pkg}

import "example.com/c/blib"

type I interface{{ M() }}
type J interface {{
	M()
	N()
}}
type K interface{{ N() }}
type E interface {{
	I
	Extra()
}}
type Alias = I

type V struct{{ id int }}

func (V) M() {{}}

type P struct{{ id int }}

func (*P) M() {{}}

type W struct{{ id int }}

func (W) M() {{}}
func (W) N() {{}}

type Emb struct{{ V }}
type EmbP struct{{ *P }}
type Named int

func (Named) M() {{}}

type FV func()

func (FV) M() {{}}

var _ blib.I

// values whose static type is itself an interface
var (
	IVal   I           = V{{20}}
	JVal   J           = W{{21}}
	KVal   K           = W{{22}}
	AnyVal interface{{}} = W{{23}}
	EVal   E
)

func NewV() V       {{ return V{{1}} }}
func NewPV() *V     {{ return &V{{2}} }}
func NewP() P       {{ return P{{3}} }}
func NewPP() *P     {{ return &P{{4}} }}
func NewW() W       {{ return W{{5}} }}
func NewJ() J       {{ return W{{6}} }}
func NewI() I       {{ return V{{7}} }}
func NewK() K       {{ return W{{8}} }}
func NewEmb() Emb   {{ return Emb{{}} }}
func NewPEmb() *Emb {{ return &Emb{{}} }}
func NewEmbP() EmbP {{ return EmbP{{&P{{}}}} }}
func NewNamed() Named {{ return 9 }}
func NewFV() FV     {{ return func() {{}} }}
func NewBV() blib.V {{ return blib.V{{}} }}
func NewBP() blib.P {{ return blib.P{{}} }}
func NewBPP() *blib.P {{ return &blib.P{{}} }}
'''

BLIB = '''package blib

type I interface{ M() }

type V struct{}

func (V) M() {}

type P struct{}

func (*P) M() {}
'''

# (interface, concrete type as written inside new(...), provider, accepted?)
BIND = [
    ("I", "V", "NewV", True), ("I", "*V", "NewPV", True), ("I", "P", "NewP", False), ("I", "*P", "NewPP", True),
    ("I", "J", "NewJ", True), ("J", "I", "NewI", False), ("I", "K", "NewK", False), ("I", "I", "NewI", False),
    ("I", "Emb", "NewEmb", True), ("I", "*Emb", "NewPEmb", True), ("I", "EmbP", "NewEmbP", True),
    ("E", "V", "NewV", False), ("E", "W", "NewW", False), ("J", "W", "NewW", True), ("J", "*W", None, True), ("J", "V", "NewV", False),
    ("K", "W", "NewW", True), ("K", "J", "NewJ", True), ("K", "I", "NewI", False),
    ("I", "Named", "NewNamed", True), ("I", "FV", "NewFV", True),
    ("blib.I", "V", "NewV", True), ("blib.I", "P", "NewP", False), ("blib.I", "*P", "NewPP", True),
    ("I", "blib.V", "NewBV", True), ("I", "blib.P", "NewBP", False), ("I", "*blib.P", "NewBPP", True),
    ("blib.I", "J", "NewJ", True), ("blib.I", "K", "NewK", False),
    ("interface{}", "V", "NewV", True), ("any", "P", "NewP", True), ("Alias", "V", "NewV", True), ("Alias", "I", "NewI", False),
    ("I", "W", "NewW", True),
]

# (interface, value expression, accepted?)
IVALUE = [
    ("I", "V{}", True), ("I", "P{}", False), ("I", "&P{}", True), ("I", "&V{}", True), ("J", "V{}", False), ("J", "W{}", True),
    ("I", "Named(3)", True), ("blib.I", "blib.V{}", True), ("blib.I", "blib.P{}", False), ("E", "W{}", False), ("I", "Emb{}", True),
    # the value's static type is an interface: it must have every method of the target, whatever it holds at run time
    ("I", "JVal", True), ("J", "IVal", False), ("K", "IVal", False), ("I", "KVal", False), ("K", "JVal", True), ("J", "AnyVal", False),
    ("I", "AnyVal", False), ("E", "IVal", False), ("I", "EVal", True), ("blib.I", "IVal", True), ("J", "KVal", False),
    ("interface{}", "IVal", True), ("I", "I(V{})", True), ("J", "I(W{})", False), ("J", "AnyVal.(I)", False), ("J", "AnyVal.(J)", True),
]


def run_c11(rep, tier, only=None):
    """only="ivalue": just the wire.InterfaceValue half (property C13 claims it too)"""
    ws = Workspace()
    fails = []
    stats = {"cases": 0, "accepted": 0, "rejected": 0}
    try:
        os.makedirs(ws.root + "/blib")
        open(ws.root + "/blib/blib.go", "w").write(BLIB)
        plan = []
        for k, (i, c, prov, want) in enumerate(BIND):
            if prov is None or only == "ivalue":
                continue
            # the marker functions reached through the plain, a dot and a renamed import: the meaning of the call is the same
            for form, imp, q in (("", '"github.com/google/wire"', "wire."), ("d", '. "github.com/google/wire"', ""), ("r", 'wr "github.com/google/wire"', "wr.")):
                pkg = "b%s%d" % (form, k)
                d = ws.root + "/" + pkg
                os.makedirs(d)
                open(d + "/t.go", "w").write(TYPES.format(pkg=pkg))
                open(d + "/wire.go", "w").write(
                    "//go:build wireinject\n// +build wireinject\n\npackage %s\n\nimport (\n\t\"example.com/c/blib\"\n\t%s\n)\n\n"
                    "var _ blib.I\n\nfunc Init() %s {\n\tpanic(%sBuild(%s, %sBind(new(%s), new(%s))))\n}\n" % (pkg, imp, i, q, prov, q, i, c))
                plan.append((pkg, "%sBind(new(%s), new(%s))%s" % (q, i, c, " (wire dot-imported)" if form == "d" else ""), want))
        for k, (i, e, want) in enumerate(IVALUE):
            pkg = "v%d" % k
            d = ws.root + "/" + pkg
            os.makedirs(d)
            open(d + "/t.go", "w").write(TYPES.format(pkg=pkg))
            open(d + "/wire.go", "w").write(
                "//go:build wireinject\n// +build wireinject\n\npackage %s\n\nimport (\n\t\"example.com/c/blib\"\n\t\"github.com/google/wire\"\n)\n\n"
                "var _ blib.I\n\nfunc Init() %s {\n\tpanic(wire.Build(wire.InterfaceValue(new(%s), %s)))\n}\n" % (pkg, i, i, e))
            plan.append((pkg, "wire.InterfaceValue(new(%s), %s)" % (i, e), want))
        # Go itself decides which spellings type-check (InterfaceValue takes interface{} arguments, so all do)
        rc, out, err = run(["go", "vet", "-tags", "wireinject", "./..."], cwd=ws.root, env=dict(GOENV), timeout=600)
        badpk = set(re.findall(r"(?m)^(?:\./)?([bv]\d+)/[\w.]+\.go:\d+", out + err))
        plan = [x for x in plan if x[0] not in badpk]
        results = ws.wire_many([["gen", "./" + p] for p, _, _ in plan], timeout=60)
        built = []
        for (pkg, what, want), (rc, out, err) in zip(plan, results):
            stats["cases"] += 1
            rep.evaluations += 1
            rep.nontrivial.add(what)
            acc = rc == 0
            stats["accepted" if acc else "rejected"] += 1
            if len(rep.coverage["samples"]) < 4:
                rep.sample({"binding": what, "accepted": acc, "expected": want, "stderr": err.strip()[:160]})
            if panicked(err):
                fails.append({"stream": "c11", "why": ["wire panicked on %s: %s" % (what, err[-300:])]})
            elif acc and not want:
                fails.append({"stream": "c11", "why": ["%s accepted although the concrete type does not implement the interface "
                                                       "(or binds an interface to itself)" % what], "binding": what})
            elif not acc and want:
                fails.append({"stream": "c11", "why": ["%s rejected although the concrete type implements the interface: %s" % (what, err.strip()[:300])],
                              "binding": what})
            elif not acc and not re.search(r"does not implement|cannot bind interface to itself", err):
                fails.append({"stream": "c11", "why": ["%s rejected with an unexpected diagnostic: %s" % (what, err.strip()[:300])]})
            if acc:
                built.append(pkg)
        if built:
            rc, out, err = run(["go", "build"] + ["./" + p for p in built], cwd=ws.root, env=dict(GOENV), timeout=600)
            if rc != 0:
                fails.append({"stream": "c11", "why": ["an accepted binding does not compile: " + (out + err)[-500:]]})
    finally:
        ws.close()
    rep.coverage["c11_matrix"] = stats
    return [], fails
