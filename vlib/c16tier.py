"""C16: byte-identical output across locations, invocation directories/patterns, batch composition, repeats,
and dependency layouts (module / GOPATH / GOPATH+vendor)."""
import os
import re
import shutil

from . import e2e_gen as G, e2e_run as R, e2e_eval as EV
from .common import WIRE, GOENV, REPO, run, scratch, rmtree, seed, log


def collect(root, progs):
    out = {}
    for p in progs:
        f = "%s/%s/%s/wire_gen.go" % (root, p.name, p.pkgmap["app"]["dir"])
        out[p.name] = open(f).read() if os.path.exists(f) else None
    return out


def clean(root, progs):
    for p in progs:
        f = "%s/%s/%s/wire_gen.go" % (root, p.name, p.pkgmap["app"]["dir"])
        if os.path.exists(f):
            os.remove(f)


def run_module_configs(rep, tier):
    n = 24 if tier == "quick" else 150
    progs = EV.gen_batch(n, {"units": [2, 3], "max_structs": 8, "adversarial": False, "p_slice_value": 0.7, "p_func": 0.6}, "c16")
    # rename packages in a few programs so that import aliases are in play
    import random
    rng = random.Random(seed() + 16)
    from . import e2e_names
    for p in progs[::3]:
        e2e_names.adversarial(rng, p)
    # injectors of one package spread over two to four files
    for k, p in enumerate(progs):
        if k % 2 == 1:
            p.inj_files = 2 + k % 3
    fails = []
    base = scratch("wvc16")
    other = scratch("wvc16-a-much-longer-directory-name") + "/nested/deeper/checkout"
    try:
        # a few very small packages next to the programs: with a header file, what is generated for one package must not depend on
        # which other packages the same invocation generates (buffers shared between packages show only on small outputs)
        tiny = {}
        for k in range(4):
            tiny["tiny%d/t.go" % k] = "package tiny%d\n\ntype T struct{ N int }\n\nfunc NewT() T { return T{N: %d} }\n" % (k, k)
            tiny["tiny%d/wire.go" % k] = ("//go:build wireinject\n// +build wireinject\n\npackage tiny%d\n\nimport \"github.com/google/wire\"\n\n"
                                          "func Init%d() T {\n\tpanic(wire.Build(NewT))\n}\n" % (k, k))
        R.write_module(base, progs, tiny)
        rc, out, err = run([WIRE, "gen", "./..."], cwd=base, env=dict(GOENV), timeout=600)
        ref = collect(base, progs)
        ok = [p for p in progs if ref[p.name] is not None]
        rep.coverage["c16_programs"] = len(ok)
        configs = 0

        def compare(label, got, only=None):
            nonlocal configs
            configs += 1
            for p in ok:
                if only is not None and p.name not in only:
                    continue
                rep.evaluations += 1
                if got.get(p.name) != ref[p.name]:
                    fails.append({"stream": "c16", "why": ["output for %s differs under configuration '%s'" % (p.name, label)],
                                  "program": p.name, "reference": (ref[p.name] or "")[:1500], "other": (got.get(p.name) or "<none>")[:1500]})
        # repeats (map iteration order)
        for k in range(6 if tier == "quick" else 12):
            clean(base, progs)
            run([WIRE, "gen", "./..."], cwd=base, env=dict(GOENV), timeout=600)
            compare("repeat %d" % k, collect(base, progs))
        # another checkout location, deeper path
        os.makedirs(os.path.dirname(other), exist_ok=True)
        shutil.copytree(base, other)
        clean(other, progs)
        run([WIRE, "gen", "./..."], cwd=other, env=dict(GOENV), timeout=600)
        compare("other checkout location", collect(other, progs))
        # invocation directory / pattern, package alone
        for p in ok[: (6 if tier == "quick" else 40)]:
            appdir = "%s/%s/%s" % (base, p.name, p.pkgmap["app"]["dir"])
            clean(base, [p])
            run([WIRE, "gen", "."], cwd=appdir, env=dict(GOENV), timeout=120)
            compare("cwd = package dir, pattern .", collect(base, [p]), only={p.name})
            clean(base, [p])
            run([WIRE, "gen"], cwd=appdir, env=dict(GOENV), timeout=120)
            compare("cwd = package dir, no pattern", collect(base, [p]), only={p.name})
            clean(base, [p])
            run([WIRE, "gen", "./%s/..." % p.name], cwd=base, env=dict(GOENV), timeout=120)
            compare("pattern ./prog/...", collect(base, [p]), only={p.name})
            clean(base, [p])
            run([WIRE, "gen", p.path("app")], cwd=base, env=dict(GOENV), timeout=120)
            compare("import-path pattern", collect(base, [p]), only={p.name})
            # started in a directory that does not contain the package: a sibling program's directory, the wtrace package
            sib = base + "/" + next(q.name for q in ok if q.name != p.name) if len(ok) > 1 else base + "/wtrace"
            clean(base, [p])
            run([WIRE, "gen", p.path("app")], cwd=sib, env=dict(GOENV), timeout=120)
            compare("cwd = sibling directory, import-path pattern", collect(base, [p]), only={p.name})
            clean(base, [p])
            run([WIRE, "gen", "../%s/%s" % (p.name, p.pkgmap["app"]["dir"])], cwd=sib, env=dict(GOENV), timeout=120)
            compare("cwd = sibling directory, relative pattern ../prog/app", collect(base, [p]), only={p.name})
            clean(base, [p])
            run([WIRE, "gen", p.path("app")], cwd=base + "/wtrace", env=dict(GOENV), timeout=120)
            compare("cwd = unrelated package directory, import-path pattern", collect(base, [p]), only={p.name})
        # header file: every output is the header followed by the plain output, whatever else the invocation generates
        hdr = "// Copyright notice of the project.\n// Second line.\n\n"
        open(base + "/hdr.txt", "w").write(hdr)

        def tiny_out():
            return {k: (open("%s/tiny%d/wire_gen.go" % (base, k)).read() if os.path.exists("%s/tiny%d/wire_gen.go" % (base, k)) else None) for k in range(4)}

        def tiny_clean():
            for k in range(4):
                if os.path.exists("%s/tiny%d/wire_gen.go" % (base, k)):
                    os.remove("%s/tiny%d/wire_gen.go" % (base, k))
        plain = tiny_out()
        alone = {}
        for k in range(4):
            tiny_clean()
            run([WIRE, "gen", "-header_file", base + "/hdr.txt", "./tiny%d" % k], cwd=base, env=dict(GOENV), timeout=120)
            alone[k] = tiny_out()[k]
        for label, pats in (("all four", ["./tiny0", "./tiny1", "./tiny2", "./tiny3"]), ("reverse order", ["./tiny3", "./tiny2", "./tiny1", "./tiny0"]),
                            ("two", ["./tiny1", "./tiny2"]), ("whole module", ["./..."])):
            tiny_clean()
            run([WIRE, "gen", "-header_file", base + "/hdr.txt"] + pats, cwd=base, env=dict(GOENV), timeout=600)
            got = tiny_out()
            configs += 1
            for k in range(4):
                if ("./tiny%d" % k) not in pats and pats != ["./..."]:
                    continue
                rep.evaluations += 1
                if plain[k] is None or alone[k] != hdr + plain[k] or got[k] != alone[k]:
                    fails.append({"stream": "c16", "why": ["with -header_file, the output for package tiny%d generated together with other packages (%s) "
                                                           "differs from the output generated alone / from header + plain output" % (k, label)],
                                  "alone": (alone[k] or "<none>")[:800], "together": (got[k] or "<none>")[:800]})
        # the way the header file is named on the command line (relative to another directory, absolute) is no part of the output
        for k in range(2):
            for label, argv, cwd in (("relative header path, from the package directory", ["gen", "-header_file", "../hdr.txt", "."], "%s/tiny%d" % (base, k)),
                                     ("relative header path, from the module root", ["gen", "-header_file", "hdr.txt", "./tiny%d" % k], base),
                                     ("header path through a detour", ["gen", "-header_file", "tiny%d/../hdr.txt" % k, "./tiny%d" % k], base)):
                tiny_clean()
                run([WIRE] + argv, cwd=cwd, env=dict(GOENV), timeout=120)
                got = tiny_out()[k]
                configs += 1
                rep.evaluations += 1
                if got != alone[k]:
                    fails.append({"stream": "c16", "why": ["with -header_file, the output for package tiny%d depends on how the header file is named (%s)" % (k, label)],
                                  "reference": (alone[k] or "<none>")[:800], "other": (got or "<none>")[:800]})
            if alone[k] and (base in alone[k] or "/tmp/" in alone[k]):
                fails.append({"stream": "c16", "why": ["the output generated with -header_file <absolute path> mentions a run-specific path"], "output": alone[k][:800]})
        if os.path.exists(base + "/hdr.txt"):
            os.remove(base + "/hdr.txt")
        # nothing run-specific in the output
        for p in ok:
            txt = ref[p.name]
            for needle in (base, "/tmp/", os.environ.get("TMPDIR", "/nonexistent-tmpdir"), "wvc16"):
                if needle and needle in txt:
                    fails.append({"stream": "c16", "why": ["output of %s mentions the run-specific string %r" % (p.name, needle)], "program": p.name})
            if re.search(r"\b20\d\d-\d\d-\d\d\b|\d\d:\d\d:\d\d", txt):
                fails.append({"stream": "c16", "why": ["output of %s contains a date or time" % p.name], "program": p.name})
            rep.nontrivial.add(p.name + str(len(txt)))
        rep.coverage["c16_configurations"] = configs
        if ok:
            rep.sample({"program": ok[0].name, "wire_gen.go": ref[ok[0].name][:600]})
    finally:
        rmtree(base)
        rmtree(other.split("/nested")[0])
    return fails


LIBS = {
    "github.com/a/govendor/lib": "package lib\n\ntype Thing struct{ N int }\n\nfunc NewThing() Thing { return Thing{N: 1} }\n",
    "github.com/b/plain": "package plain\n\nimport \"github.com/a/govendor/lib\"\n\ntype Box struct{ T lib.Thing }\n\nfunc NewBox(t lib.Thing) *Box { return &Box{T: t} }\n",
    "github.com/c/vendor2/util": "package util\n\ntype U struct{}\n\nfunc NewU() U { return U{} }\n",
    # imported for its side effect only (blank import in the injector file), and through a dot import
    "github.com/d/driver": "package driver\n\nvar Registered = 0\n\nfunc init() { Registered++ }\n",
    "github.com/e/dotted/vendor3": "package vendor3\n\ntype V struct{}\n\nfunc NewV() V { return V{} }\n",
}
APP = {
    "app.go": "package app\n\nimport (\n\t\"github.com/b/plain\"\n\t\"github.com/c/vendor2/util\"\n)\n\ntype App struct {\n\tB *plain.Box\n\tU util.U\n}\n\n"
              "func NewApp(b *plain.Box, u util.U) App { return App{B: b, U: u} }\n",
    "wire.go": "//go:build wireinject\n// +build wireinject\n\npackage app\n\nimport (\n\t\"github.com/a/govendor/lib\"\n\t\"github.com/b/plain\"\n"
               "\t\"github.com/c/vendor2/util\"\n\t_ \"github.com/d/driver\"\n\t. \"github.com/e/dotted/vendor3\"\n\t\"github.com/google/wire\"\n)\n\n"
               "func Init() App {\n\twire.Build(lib.NewThing, plain.NewBox, util.NewU, NewApp)\n\treturn App{}\n}\n\n"
               "func InitV() V {\n\twire.Build(NewV)\n\treturn V{}\n}\n",
}


def put(root, rel, content):
    p = root + "/" + rel
    os.makedirs(os.path.dirname(p), exist_ok=True)
    open(p, "w").write(content)


def run_layouts(rep, tier):
    """one program with third-party dependencies resolved in module mode, GOPATH mode, GOPATH + vendor"""
    fails = []
    outs = {}
    wire_src = open(REPO + "/wire.go").read()
    # module mode
    m = scratch("wvc16m")
    g = scratch("wvc16g")
    v = scratch("wvc16v")
    try:
        mod = "module example.com/app\n\ngo 1.21\n\nrequire (\n\tgithub.com/google/wire v0.0.0\n"
        rep_lines = "\nreplace github.com/google/wire => ./_deps/wire\n"
        put(m, "_deps/wire/go.mod", "module github.com/google/wire\n\ngo 1.12\n")
        put(m, "_deps/wire/wire.go", wire_src)
        for path, src in LIBS.items():
            modroot = "/".join(path.split("/")[:3])
            d = "_deps/" + modroot.replace("/", "_")
            put(m, d + "/go.mod", "module %s\n\ngo 1.21\n" % modroot)
            put(m, d + "/" + "/".join(path.split("/")[3:] + [path.split("/")[-1] + ".go"]), src)
            mod += "\t%s v0.0.0\n" % modroot
            rep_lines += "replace %s => ./%s\n" % (modroot, d)
        # the dependencies depend on each other: give them the same replaces
        for path in LIBS:
            modroot = "/".join(path.split("/")[:3])
            d = m + "/_deps/" + modroot.replace("/", "_")
            extra = ""
            if modroot == "github.com/b/plain":
                extra = "\nrequire github.com/a/govendor v0.0.0\n\nreplace github.com/a/govendor => ../github.com_a_govendor\n"
                open(d + "/go.mod", "a").write(extra)
        put(m, "go.mod", mod + ")\n" + rep_lines)
        for f, src in APP.items():
            put(m, "app/" + f, src)
        rc, out, err = run([WIRE, "gen", "./app"], cwd=m, env=dict(GOENV), timeout=300)
        outs["module"] = (rc, open(m + "/app/wire_gen.go").read() if os.path.exists(m + "/app/wire_gen.go") else None, err)
        # GOPATH mode
        env = dict(GOENV, GO111MODULE="off", GOFLAGS="", GOPATH=g)
        put(g, "src/github.com/google/wire/wire.go", wire_src)
        for path, src in LIBS.items():
            put(g, "src/%s/%s.go" % (path, path.split("/")[-1]), src)
        for f, src in APP.items():
            put(g, "src/example.com/app/app/" + f, src)
        rc, out, err = run([WIRE, "gen", "./app"], cwd=g + "/src/example.com/app", env=env, timeout=300)
        gp = g + "/src/example.com/app/app/wire_gen.go"
        outs["gopath"] = (rc, open(gp).read() if os.path.exists(gp) else None, err)
        rcb, _, eb = run(["go", "build", "./app"], cwd=g + "/src/example.com/app", env=env, timeout=300)
        if outs["gopath"][1] is not None and rcb != 0:
            fails.append({"stream": "c16-layout", "why": ["GOPATH mode: generated package does not build: " + eb[-400:]]})
        # GOPATH + vendor
        env = dict(GOENV, GO111MODULE="off", GOFLAGS="", GOPATH=v)
        put(v, "src/example.com/app/vendor/github.com/google/wire/wire.go", wire_src)
        for path, src in LIBS.items():
            put(v, "src/example.com/app/vendor/%s/%s.go" % (path, path.split("/")[-1]), src)
        for f, src in APP.items():
            put(v, "src/example.com/app/app/" + f, src)
        rc, out, err = run([WIRE, "gen", "./app"], cwd=v + "/src/example.com/app", env=env, timeout=300)
        vp = v + "/src/example.com/app/app/wire_gen.go"
        outs["vendor"] = (rc, open(vp).read() if os.path.exists(vp) else None, err)
        rcb, _, eb = run(["go", "build", "./app"], cwd=v + "/src/example.com/app", env=env, timeout=300)
        if outs["vendor"][1] is not None and rcb != 0:
            fails.append({"stream": "c16-layout", "why": ["GOPATH+vendor mode: generated package does not build "
                                                          "(a vendored import path was not written in canonical form?): " + eb[-400:]],
                          "wire_gen.go": outs["vendor"][1][:1200]})
        ref = outs["module"][1]
        for mode, (rc, txt, err) in outs.items():
            rep.evaluations += 1
            if txt is None:
                fails.append({"stream": "c16-layout", "why": ["%s mode: wire gen produced no output (rc=%s): %s" % (mode, rc, err[-400:])]})
            elif txt != ref:
                fails.append({"stream": "c16-layout", "why": ["%s mode output differs from module mode output" % mode],
                              "module": (ref or "")[:1200], mode: txt[:1200]})
            elif "vendor/" in re.sub(r"vendor2/", "", re.sub(r"govendor/", "", txt)):
                fails.append({"stream": "c16-layout", "why": ["%s mode output mentions a vendor directory" % mode]})
        rep.coverage["c16_layouts"] = {k: (v_[0], None if v_[1] is None else len(v_[1])) for k, v_ in outs.items()}
        rep.nontrivial.add("layouts")
    finally:
        rmtree(m)
        rmtree(g)
        rmtree(v)
    return fails


def run_header_tiny(rep, tier):
    """C01 / C16: several very small packages generated in one invocation with a header file — every written file is the header plus
    the plain output of its own package, and the module builds."""
    from .cmdtier import Workspace, panicked
    ws = Workspace()
    fails = []
    try:
        n = 4
        for k in range(n):
            os.makedirs("%s/tiny%d" % (ws.root, k))
            open("%s/tiny%d/t.go" % (ws.root, k), "w").write("package tiny%d\n\ntype T struct{ N int }\n\nfunc NewT() T { return T{N: %d} }\n" % (k, k))
            open("%s/tiny%d/wire.go" % (ws.root, k), "w").write("//go:build wireinject\n// +build wireinject\n\npackage tiny%d\n\nimport \"github.com/google/wire\"\n\n"
                                                               "func Init%d() T {\n\tpanic(wire.Build(NewT))\n}\n" % (k, k))
        hdr = "// Copyright notice of the project.\n\n"
        open(ws.root + "/hdr.txt", "w").write(hdr)
        rc, out, err = ws.wire(["gen", "./..."])
        plain = {k: ws.read("tiny%d" % k) for k in range(n)}
        if rc != 0 or None in plain.values() or panicked(err):
            return [], [{"stream": "header-tiny", "why": ["wire gen fails on tiny well-formed packages: " + err.strip()[-300:]]}]
        for k in range(n):
            ws.write("tiny%d" % k, None)
        rc, out, err = ws.wire(["gen", "-header_file", ws.root + "/hdr.txt", "./..."])
        rep.evaluations += n
        rep.nontrivial.add("header-tiny")
        for k in range(n):
            got = ws.read("tiny%d" % k)
            if rc != 0 or got != hdr + plain[k]:
                fails.append({"stream": "header-tiny", "why": ["`wire gen -header_file h ./...` over %d small packages (exit %d): the file written for package tiny%d is not the header "
                                                               "followed by that package's own output" % (n, rc, k)],
                              "written": (got or "<none>")[:600], "expected": (hdr + plain[k])[:600]})
                break
        rcb, outb, errb = run(["go", "build", "./..."], cwd=ws.root, env=dict(GOENV), timeout=300)
        if rc == 0 and rcb != 0:
            fails.append({"stream": "header-tiny", "why": ["wire gen reported success for every package, but the module does not build: " + (outb + errb).strip()[-300:]]})
    finally:
        ws.close()
    return [], fails
