"""C04 (also C03): injectors over provided types whose *local variable names* meet the cleanup / error variables Wire
invents, with types that make a mix-up type-correct: `type Cleanup func()` (a user's own shutdown-hook type) may be assigned to
the variable of a provider's cleanup function, `type Err error`-like names sit next to the error variable.  A mix-up then
compiles and silently releases the wrong thing.

Random programs: 3..7 providers in a dependency chain, each returning a named type of the injector's package (hook types
`type X func()` and struct types, names from a pool around cleanup / err), with or without a cleanup and an error result;
injector parameters and package-level declarations from the same pool.  Oracle (declarative, no model): on success nothing is
released before the aggregated cleanup is called; calling it releases every cleanup-returning provider exactly once, in the
exact reverse order of acquisition, and calls no hook value; when provider k fails, exactly the earlier cleanups run, newest
first, the failing provider's own cleanup result is not called and the injector returns that error."""
import os
import random
import re

from .cmdtier import Workspace, panicked, MOD
from .common import GOENV, run, seed

TYPE_NAMES = ["Cleanup", "Cleanup2", "Cleanup3", "Err", "Err2", "Hook", "Foo", "Bar", "Baz", "Cleanup4", "V", "Arg"]
PARAM_NAMES = ["cleanup", "cleanup2", "err", "err2", "hook", "arg", "n", "cleanup3"]
DECL_NAMES = ["cleanup", "cleanup2", "err", "cleanup3", "err2", "hook", "foo"]


def gen_case(rng, k):
    n = rng.randint(3, 7)
    names = rng.sample(TYPE_NAMES, n)
    if rng.random() < 0.7 and "Cleanup" not in names:
        names[rng.randrange(1, n)] = "Cleanup"
    provs = []
    for i, nm in enumerate(names):
        hook = nm.startswith(("Cleanup", "Hook", "Err")) and rng.random() < 0.8 or rng.random() < 0.3
        deps = sorted(rng.sample(range(i), min(i, rng.choice([0, 1, 1, 2]))))
        if i > 0 and not deps and rng.random() < 0.7:
            deps = [i - 1]
        provs.append({"name": nm, "hook": hook, "deps": deps, "cleanup": rng.random() < 0.65, "err": rng.random() < 0.4})
    if not any(p["cleanup"] for p in provs[:-1]):
        provs[0]["cleanup"] = True
    result = None
    if rng.random() < 0.5:
        # the injector returns a value of a basic kind (built last, from everything): its zero value is a literal of its own
        under, zero, val = rng.choice([("bool", "false", "true"), ("int", "0", "7"), ("string", '""', '"s"'), ("float64", "0", "1.5"),
                                       ("uint8", "0", "3"), ("complex128", "0", "2i"), ("rune", "0", "'x'"),
                                       # kinds whose zero value is nil: an empty composite literal is not it
                                       ("map[string]int", "nil", "map[string]int{\"a\": 1}"), ("[]int", "nil", "[]int{1}"),
                                       ("chan int", "nil", "make(chan int)"), ("func() int", "nil", "func() int { return 1 }"),
                                       ("*int", "nil", "new(int)"), ("interface{ M() }", "nil", "nil")])
        provs.append({"name": "Res", "hook": False, "basic": (under, zero, val), "deps": list(range(n)), "cleanup": False, "err": True})
        result = "Res"
    params = []
    if rng.random() < 0.4:
        params = rng.sample(PARAM_NAMES, rng.randint(1, 2))
    decls = rng.sample(DECL_NAMES, rng.randint(0, 2)) if rng.random() < 0.5 else []
    decls = [d for d in decls if d not in params]
    return {"pkg": "h%d" % k, "provs": provs, "params": params, "decls": decls, "result": result}


def materialise(ws, case):
    d = ws.root + "/" + case["pkg"]
    os.makedirs(d, exist_ok=True)
    L = ["package %s" % case["pkg"], "", 'import (', '\t"errors"', '\t"fmt"', ")", "",
         "var Log []string", "", "var FailAt = -1", "", "var ErrBoom = errors.New(\"boom\")", "",
         "func logf(f string, a ...interface{}) { Log = append(Log, fmt.Sprintf(f, a...)) }", ""]
    for i, p in enumerate(case["provs"]):
        if p.get("basic"):
            L.append("type %s %s" % (p["name"], p["basic"][0]))
        elif p["hook"]:
            L.append("type %s func()" % p["name"])
        else:
            L.append("type %s struct{ N int }" % p["name"])
        args = ", ".join("a%d %s" % (j, case["provs"][j]["name"]) for j in p["deps"])
        res = [p["name"]] + (["func()"] if p["cleanup"] else []) + (["error"] if p["err"] else [])
        rs = res[0] if len(res) == 1 else "(" + ", ".join(res) + ")"
        val = ("%s(func() { logf(\"hook %d called\") })" % (p["name"], i)) if p["hook"] else "%s{N: %d}" % (p["name"], i)
        zero = "nil" if p["hook"] else p["name"] + "{}"
        if p.get("basic"):
            val = zero = "%s(%s)" % (p["name"], p["basic"][2])   # a failing provider may return anything
            if p["basic"][0].startswith("interface"):
                val = zero = "%s(&resImpl{})" % p["name"]
        L.append("func Provide%d(%s) %s {" % (i, args, rs))
        if p["err"]:
            fail = [zero] + (['func() { logf("own cleanup of failed %d called") }' % i] if p["cleanup"] else []) + ["ErrBoom"]
            L.append("\tif FailAt == %d {\n\t\tlogf(\"fail %d\")\n\t\treturn %s\n\t}" % (i, i, ", ".join(fail)))
        L.append('\tlogf("acquire %d")' % i)
        ok = [val] + (['func() { logf("release %d") }' % i] if p["cleanup"] else []) + (["nil"] if p["err"] else [])
        L.append("\treturn %s\n}\n" % ", ".join(ok))
    if any(p.get("basic") and p["basic"][0].startswith("interface") for p in case["provs"]):
        L.append("type resImpl struct{}\n\nfunc (*resImpl) M() {}\n")
    fields = "\n".join("\tF%d %s" % (i, p["name"]) for i, p in enumerate(case["provs"]) if not p.get("basic"))
    L.append("type App struct {\n%s\n}\n" % fields)
    for nm in case["decls"]:
        L.append("var %s = 0\n" % nm)
    for j in range(len(case["params"])):
        L.append("type P%d int\n" % j)
    open(d + "/types.go", "w").write("\n".join(L))
    params = ", ".join("%s P%d" % (nm, j) for j, nm in enumerate(case["params"]))
    provs = ", ".join("Provide%d" % i for i in range(len(case["provs"])))
    open(d + "/wire.go", "w").write(
        "//go:build wireinject\n// +build wireinject\n\npackage %s\n\nimport \"github.com/google/wire\"\n\n" % case["pkg"] +
        "func Init(%s) (%s, func(), error) {\n\tpanic(wire.Build(%s%s))\n}\n" % (
            params, "Res" if case.get("result") else "*App", provs, "" if case.get("result") else ', wire.Struct(new(App), "*")'))


DRIVER_HEAD = '''package main

import (
	"fmt"
%s)

func show(tag string, log []string) { fmt.Printf("%%s|%%s\\n", tag, join(log)) }

func join(l []string) string {
	s := ""
	for i, x := range l {
		if i > 0 {
			s += ";"
		}
		s += x
	}
	return s
}

func main() {
'''


def run_c04(rep, tier, which="C04"):
    rng = random.Random(seed() * 6007 + 4)
    n = 40 if tier == "quick" else 400
    cases = [gen_case(rng, k) for k in range(n)]
    ws = Workspace()
    fails = []
    stats = {"programs": n, "accepted": 0, "runs": 0, "with_type_named_Cleanup": 0, "hook_types": 0}
    try:
        for c in cases:
            materialise(ws, c)
            stats["with_type_named_Cleanup"] += any(p["name"] == "Cleanup" for p in c["provs"])
            stats["hook_types"] += sum(p["hook"] for p in c["provs"])
        results = ws.wire_many([["gen", "./" + c["pkg"]] for c in cases], timeout=120)
        okc = []
        for c, (rc, out, err) in zip(cases, results):
            rep.evaluations += 1
            if panicked(err):
                fails.append({"stream": "c04", "why": ["wire panicked: " + err[-300:]], "case": c})
            elif rc != 0:
                fails.append({"stream": "c04", "why": ["a well-formed program is rejected: " + err.strip()[:300]], "case": c})
            else:
                okc.append(c)
                stats["accepted"] += 1
        os.makedirs(ws.root + "/cmd/drv04")
        if which != "C04":
            okc = [c for c in okc if any(pr["err"] for pr in c["provs"])]
        imports = "".join('\t"%s/%s"\n' % (MOD, c["pkg"]) for c in okc)
        L = [DRIVER_HEAD % imports]
        for c in okc:
            p = c["pkg"]
            args = ", ".join("0" for _ in c["params"])
            fallible = [i for i, pr in enumerate(c["provs"]) if pr["err"]]
            for fa in ([-1] if which == "C04" else fallible):
                L.append("\t{\n\t\t%s.Log, %s.FailAt = nil, %d\n\t\tapp, cl, err := %s.Init(%s)" % (p, p, fa, p, args))
                L.append('\t\tshow("%s %d init", %s.Log)' % (p, fa, p))
                zlit = [x for x in c["provs"] if x.get("basic")][0]["basic"][1] if c.get("result") else "nil"
                nz = "app != nil" if zlit == "nil" else "app != %s.Res(%s)" % (p, zlit)
                L.append('\t\tfmt.Printf("%s %d result|%%v|%%v|%%v\\n", %s, cl != nil, err == %s.ErrBoom)' % (p, fa, nz, p))
                L.append("\t\t%s.Log = nil\n\t\tif cl != nil {\n\t\t\tcl()\n\t\t}" % p)
                L.append('\t\tshow("%s %d cleanup", %s.Log)\n\t}' % (p, fa, p))
        L.append("}\n")
        open(ws.root + "/cmd/drv04/main.go", "w").write("\n".join(L))
        rc, out, err = run(["go", "run", "./cmd/drv04"], cwd=ws.root, env=dict(GOENV), timeout=600)
        if rc != 0:
            # attribute build errors to packages
            bad = sorted(set(re.findall(r"(?m)^(?:\./)?(h\d+)/wire_gen\.go:\d+:\d+: .*$", out + err)))
            msgs = re.findall(r"(?m)^(?:\./)?h\d+/wire_gen\.go:\d+:\d+: .*$", out + err)
            fails.append({"stream": "c04", "why": ["generated injectors do not compile / run: " + "; ".join(msgs[:3]) if msgs else (out + err)[-500:]],
                          "cases": [c for c in okc if c["pkg"] in bad][:2]})
        by = {c["pkg"]: c for c in okc}
        obs = {}
        for line in out.split("\n"):
            m = re.match(r"(h\d+) (-?\d+) (init|cleanup)\|(.*)$", line)
            if m:
                obs.setdefault((m.group(1), int(m.group(2))), {})[m.group(3)] = [x for x in m.group(4).split(";") if x]
            m = re.match(r"(h\d+) (-?\d+) result\|(\w+)\|(\w+)\|(\w+)$", line)
            if m:
                obs.setdefault((m.group(1), int(m.group(2))), {})["result"] = (m.group(3), m.group(4), m.group(5))
        for (pkg, fa), o in sorted(obs.items()):
            c = by[pkg]
            stats["runs"] += 1
            rep.nontrivial.add("%s/%d" % (pkg, fa))
            why = check_run(c, fa, o)
            if why:
                fails.append({"stream": "c04", "why": why[:4], "case": c, "fail_at": fa, "observed": o,
                              "wire_gen.go": (ws.read(pkg) or "")[:3000]})
    finally:
        ws.close()
    rep.coverage["c04_hooks"] = stats
    return [], fails[:20]


def check_run(c, fa, o):
    why = []
    init, cl, res = o.get("init", []), o.get("cleanup", []), o.get("result")
    acquired = [int(x.split()[1]) for x in init if x.startswith("acquire ")]
    other = [x for x in init if not x.startswith(("acquire ", "fail "))]
    with_cleanup = [i for i in acquired if c["provs"][i]["cleanup"]]
    want = ["release %d" % i for i in reversed(with_cleanup)]
    if fa < 0:
        if other:
            why.append("during a successful injector call: %s (nothing may be released or called before the aggregated cleanup is)" % other)
        if sorted(acquired) != list(range(len(c["provs"]))):
            why.append("providers that ran: %s, expected each of %d once" % (acquired, len(c["provs"])))
        if res != ("true", "true", "false"):
            why.append("successful call returned (app != nil, cleanup != nil, err == ErrBoom) = %s" % (res,))
        if cl != want:
            why.append("the aggregated cleanup did %s, expected exactly %s (reverse order of acquisition %s)" % (cl, want, acquired))
    else:
        if "fail %d" % fa not in init:
            why.append("provider %d was to fail but did not run: %s" % (fa, init))
            return why
        after = init[init.index("fail %d" % fa) + 1:]
        if after != want:
            why.append("after the failure of provider %d the injector did %s, expected exactly %s" % (fa, after, want))
        if res != ("false", "false", "true"):
            why.append("failed call returned (app != nil, cleanup != nil, err == ErrBoom) = %s, expected (false, false, true)" % (res,))
        if cl:
            why.append("cleanup activity after a failed call: %s" % cl)
    return why
