"""Abstract Wire programs for the e2e tier: generator and materialiser (abstract program -> Go module).

A program is a set of *units*; a unit is an independent slice (own types, providers, sets, one
injector) and units share the packages of the program, so that one generated file contains
several injectors.  Type descriptors: ('v', i) struct value S_i, ('p', i) *S_i, ('s', i) []S_i,
('i', j) interface I_j.  Every descriptor is interned to an int for the planner protocol."""
import random
import re

MOD = "example.com/w"


class Unit:
    """one injector with everything it can see"""

    def __init__(self, uid):
        self.uid = uid
        self.structs = []    # dict(name, pkg, fields=[(fname, tdesc)], extra=[(fname, gotype, tag)])
        self.ifaces = []     # dict(name, pkg, impl=struct idx, ptr=bool)
        self.items = []      # dict(kind, id, ..., pkg)
        self.sets = []       # dict(id, pkg, var, items=[item idx], imports=[set idx], build=bool)
        self.inj = None      # dict(name, pkg, args=[tdesc], out=tdesc, cleanup, err, form)
        self.tids = {}       # tdesc -> int
        self.notes = []      # planted defects
        self.prog = None

    def tid(self, td):
        if td not in self.tids:
            self.tids[td] = len(self.tids)
        return self.tids[td]


class Prog:
    def __init__(self, name):
        self.name = name
        self.pkgs = ["liba", "libb", "app"]      # import order: later may import earlier
        self.units = []
        # logical package -> actual directory and package name (C14 renames them)
        self.pkgmap = {p: {"dir": p, "name": p} for p in self.pkgs}
        self.extra_decls = []                    # extra top-level declarations of package app

    def qual(self, pkg):
        """identifier by which files of this program refer to logical package pkg"""
        nm = self.pkgmap[pkg]["name"]
        clash = [q for q in self.pkgs if q != pkg and self.pkgmap[q]["name"] == nm]
        if nm == "init":
            return "init" + "X" + pkg        # a package called init can only be imported under another name
        if nm in PREDECLARED:
            return nm + "X" + pkg            # the files of this program use the predeclared identifier themselves
        return nm if not clash else "%sX%s" % (nm, pkg)

    def path(self, pkg):
        return "%s/%s/%s" % (MOD, self.name, self.pkgmap[pkg]["dir"])


PREDECLARED = ("copy", "len", "new", "append", "cap", "make", "string", "nil", "true", "error", "int")


WIRE_IMPORT = {"plain": "github.com/google/wire", "dot": ". github.com/google/wire", "renamed": "wr github.com/google/wire"}


def sname(u, i):
    return "S%d_%d" % (u.uid, i)


def iname(u, j):
    return "I%d_%d" % (u.uid, j)


def gotype(u, td, frm):
    """Go spelling of td as seen from package frm"""
    k, i = td
    if k == "i":
        d = u.ifaces[i]
        base = d["name"]
        pkg = d["pkg"]
        return base if pkg == frm else u.prog.qual(pkg) + "." + base
    d = u.structs[i]
    base = d["name"] if d["pkg"] == frm else u.prog.qual(d["pkg"]) + "." + d["name"]
    return {"v": "", "p": "*", "s": "[]"}[k] + base


def pkg_level(p):
    return {"liba": 0, "libb": 1, "app": 2}[p]


def gen_unit(rng, uid, opts):
    u = Unit(uid)
    nS = rng.randint(opts.get("min_structs", 3), opts.get("max_structs", 7))
    p_cl, p_er, p_fn = opts.get("p_cleanup", 0.35), opts.get("p_err", 0.35), opts.get("p_func", 0.45)
    p_st = opts.get("p_struct", 0.15)
    # package levels are monotone in the struct index: roots (low index) live in importing packages
    cuts = sorted(rng.sample(range(nS + 1), 2)) if rng.random() < 0.7 else [nS, nS]
    if rng.random() < 0.25:
        cuts = [0, 0]                                   # everything in app
    if opts.get("p_lib_structs") and rng.random() < opts["p_lib_structs"] and nS > 1:
        cuts = [1, rng.randint(1, nS)]                  # only the root type in app: the providers live in the libraries
    for i in range(nS):
        pkg = "app" if i < cuts[0] or cuts == [0, 0] else ("libb" if i < cuts[1] else "liba")
        if cuts == [nS, nS]:
            pkg = "app"
        u.structs.append({"name": sname(u, i), "pkg": pkg, "fields": [], "extra": [], "ptrrecv": False})
    nI = rng.choice([0, 0, 1, 1, 2])
    for j in range(nI):
        m = rng.randrange(1, nS) if nS > 1 else 0
        u.ifaces.append({"name": iname(u, j), "pkg": u.structs[m]["pkg"], "impl": m, "ptr": rng.random() < 0.5})
    # pointer-receiver marker methods: a struct implements its interfaces through *S only
    for d in u.ifaces:
        if d["ptr"]:
            u.structs[d["impl"]]["ptrrecv"] = True

    def rank(td):
        k, i = td
        return u.ifaces[i]["impl"] - 0.5 if k == "i" else i

    def later(td, n):
        """n distinct dependency types of rank > rank(td)"""
        r = rank(td)
        cands = []
        for i in range(nS):
            if i > r:
                cands += [("v", i), ("p", i)]
        for j, d in enumerate(u.ifaces):
            if d["impl"] - 0.5 > r:
                cands.append(("i", j))
        rng.shuffle(cands)
        return cands[:n]

    src = {}          # tdesc -> item index
    needed = []
    nid = [1]

    def new_id():
        nid[0] += 1
        return uid * 1000 + nid[0]

    def add_item(it):
        it["id"] = new_id()
        u.items.append(it)
        for t in it["outs"]:
            src[t] = len(u.items) - 1
        for t in it["deps"]:
            if t not in src and t not in needed:
                needed.append(t)
        return it

    root = ("v", 0) if rng.random() < 0.6 else (("p", 0) if rng.random() < 0.7 or not u.ifaces else ("i", 0))
    if u.ifaces and rng.random() < opts.get("p_iface_root", 0.0):
        root = ("i", 0)
    if root[0] == "i":
        root = ("i", min(range(len(u.ifaces)), key=lambda j: u.ifaces[j]["impl"]))
    force_arg = set()
    force_field = set()
    needed.append(root)
    allow_err = opts.get("err", True)
    while needed:
        t = needed.pop(0)
        if t in src:
            continue
        k, i = t
        x = rng.random()
        if t in force_field:
            x = p_fn + p_st + 0.12 + 0.001        # the branch that makes it a field of a later struct
        if k in ("v", "p") and t in force_arg:
            add_item({"kind": "arg", "outs": [t], "deps": []})
            continue
        if k in ("v", "p"):
            other = ("p" if k == "v" else "v", i)
            st = u.structs[i]
            if x < p_fn:
                fpkg = st["pkg"]
                if rng.random() < opts.get("p_foreign_func", 0.25):
                    # a constructor declared in a package that merely imports the type's package
                    fpkg = rng.choice([q for q in ("liba", "libb", "app") if pkg_level(q) >= pkg_level(st["pkg"])])
                add_item({"kind": "func", "outs": [t], "deps": later(t, rng.choice([0, 1, 1, 2, 2, 3])),
                          "cleanup": rng.random() < p_cl, "err": allow_err and rng.random() < p_er,
                          "variadic": False, "pkg": fpkg})
            elif x < p_fn + p_st and other not in src and not st["fields"]:
                deps = later(t, rng.choice([0, 1, 2, 3]))
                # distinct field types are required by Wire; `later` already returns distinct types
                st["fields"] = [("F%d" % n, d) for n, d in enumerate(deps)]
                allf = rng.random() < 0.4
                if rng.random() < opts.get("p_extra_fields", 0.5):
                    # fields Wire must leave alone: blank ones (cannot be set at all) and prevented ones
                    pool = [("_", "struct{}", ""), ("_", "int", ""), ("skip", "string", 'wire:"-"'),
                            ("skip2", "*int", 'json:"a" wire:"-"'), ("_", "string", 'json:"b"')]
                    st["extra"] = rng.sample(pool, rng.randint(1, 3))
                    if rng.random() < 0.5:
                        # blank first, prevented next: both in front of the real fields
                        st["extra"].sort(key=lambda e: (e[0] != "_", "wire:" not in e[2]))
                        st["extra_pos"] = [0] * len(st["extra"])
                        st["extra_pos"] = list(range(len(st["extra"])))
                    else:
                        st["extra_pos"] = [rng.randint(0, len(deps)) + n for n in range(len(st["extra"]))]
                add_item({"kind": "struct", "outs": [("v", i), ("p", i)], "deps": deps, "all": allf,
                          "struct": i, "pkg": st["pkg"]})
            elif x < p_fn + p_st + 0.12:
                add_item({"kind": "value", "outs": [t], "deps": [], "pkg": st["pkg"]})
            elif x < p_fn + p_st + 0.12 + opts.get("p_field", 0.14) and i + 1 < nS:
                # a field of a later struct m which is made by a provider function
                cands = [m for m in range(i + 1, nS) if not any(it["kind"] == "struct" and it["struct"] == m for it in u.items)]
                if not cands:
                    add_item({"kind": "arg", "outs": [t], "deps": []})
                    continue
                m = rng.choice(cands)
                pm = u.structs[m]
                if pkg_level(pm["pkg"]) != pkg_level(st["pkg"]):
                    add_item({"kind": "arg", "outs": [t], "deps": []})
                    continue
                byptr = rng.random() < 0.5 or t in force_field
                fname = "G%d%s" % (i, k)
                if not any(f[0] == fname for f in pm["fields"]):
                    pm["fields"].append((fname, t))
                parent = ("p", m) if byptr else ("v", m)
                outs = [t]
                if byptr and k == "v" and ("p", i) not in src:
                    outs = [t, ("p", i)]           # FieldsOf through a pointer also provides *field
                elif byptr:
                    # ... if that would clash (or the field is itself a pointer), select from the value
                    parent = ("v", m)
                    outs = [t]
                add_item({"kind": "field", "outs": outs, "deps": [parent], "parent": parent, "fname": fname,
                          "pkg": pm["pkg"]})
            else:
                add_item({"kind": "arg", "outs": [t], "deps": []})
        elif k == "i":
            d = u.ifaces[i]
            conc = ("p", d["impl"]) if d["ptr"] or rng.random() < 0.4 else ("v", d["impl"])
            if t == root and rng.random() < opts.get("p_iface_arg", 0.0):
                add_item({"kind": "arg", "outs": [t], "deps": []})
            elif x < 0.6:
                if t == root and rng.random() < opts.get("p_conc_arg", 0.0):
                    force_arg.add(conc)
                elif conc[0] == "p" and conc not in src and ("v", conc[1]) not in src and rng.random() < opts.get("p_bind_fieldptr", 0.15):
                    # the bound pointer type is the pointer-to-field that FieldsOf through a pointer provides: ask for the
                    # value form first and make it a field selected through a pointer
                    force_field.add(("v", conc[1]))
                    needed.insert(0, ("v", conc[1]))
                add_item({"kind": "bind", "outs": [t], "deps": [conc], "conc": conc, "pkg": d["pkg"]})
            elif x < 0.75:
                add_item({"kind": "ivalue", "outs": [t], "deps": [], "conc": conc, "pkg": d["pkg"]})
            elif x < 0.9:
                add_item({"kind": "func", "outs": [t], "deps": later(t, rng.choice([0, 1])), "cleanup": rng.random() < 0.3,
                          "err": allow_err and rng.random() < 0.3, "variadic": False, "pkg": d["pkg"], "ret_conc": conc})
            else:
                add_item({"kind": "arg", "outs": [t], "deps": []})
        else:
            add_item({"kind": "arg", "outs": [t], "deps": []})
    # a variadic provider now and then: its last parameter []S_k is an injector argument
    fn = [it for it in u.items if it["kind"] == "func" and "ret_conc" not in it]
    if fn and rng.random() < 0.25:
        it = rng.choice(fn)
        k = rng.randrange(nS)
        sl = ("s", k)
        if sl not in src and pkg_level(u.structs[k]["pkg"]) <= pkg_level(it["pkg"]):
            it["deps"] = it["deps"] + [sl]
            it["variadic"] = True
            if rng.random() < 0.5:
                u.items.append({"kind": "arg", "outs": [sl], "deps": [], "id": new_id()})
            else:
                # a slice value: its variable name derives from no type name (`_wireValue`, `_wireValue2`, ...)
                u.items.append({"kind": "value", "outs": [sl], "deps": [], "pkg": u.structs[k]["pkg"], "id": new_id()})
            src[sl] = len(u.items) - 1
    # slice-typed dependencies of ordinary providers, provided by values
    for it in [x for x in u.items if x["kind"] == "func" and "ret_conc" not in x and not x.get("variadic")]:
        if rng.random() < opts.get("p_slice_value", 0.15):
            k = rng.randrange(nS)
            sl = ("s", k)
            if sl not in src and pkg_level(u.structs[k]["pkg"]) <= pkg_level(it["pkg"]):
                it["deps"] = it["deps"] + [sl]
                u.items.append({"kind": "value", "outs": [sl], "deps": [], "pkg": u.structs[k]["pkg"], "id": new_id()})
                src[sl] = len(u.items) - 1
    # a "bridge": a struct of package liba whose field is selected, while neither the provider of the struct
    # nor the consumer of the field lives in liba (the generated code then never names liba)
    if rng.random() < opts.get("p_bridge", 0.0):
        cons = [it for it in u.items if it["kind"] == "func" and it["pkg"] != "liba" and "ret_conc" not in it and not it.get("variadic")]
        if cons:
            c = rng.choice(cons)
            ip = len(u.structs)
            u.structs.append({"name": sname(u, ip), "pkg": "liba", "fields": [("Gb", ("v", ip + 1))], "extra": [], "ptrrecv": False})
            u.structs.append({"name": sname(u, ip + 1), "pkg": "liba", "fields": [], "extra": [], "ptrrecv": False})
            c["deps"] = c["deps"] + [("v", ip + 1)]
            u.items.append({"kind": "func", "outs": [("p", ip)], "deps": [], "cleanup": False, "err": False, "variadic": False,
                            "pkg": c["pkg"], "id": new_id()})
            src[("p", ip)] = len(u.items) - 1
            u.items.append({"kind": "field", "outs": [("v", ip + 1), ("p", ip + 1)], "deps": [("p", ip)], "parent": ("p", ip),
                            "fname": "Gb", "pkg": "liba", "id": new_id()})
            src[("v", ip + 1)] = src[("p", ip + 1)] = len(u.items) - 1
            nS = len(u.structs)
    # a field reached through a pointer provides F and *F: let one provider take both, in either order (the pointer must
    # alias the field of the struct whichever form was selected first)
    for it in list(u.items):
        if it["kind"] == "field" and len(it["outs"]) == 2 and rng.random() < opts.get("p_both_forms", 0.5):
            fv, fp = it["outs"]
            for c in u.items:
                if c["kind"] == "func" and fv in c["deps"] and fp not in c["deps"] and not c.get("variadic"):
                    k = c["deps"].index(fv)
                    c["deps"].insert(k + 1 if rng.random() < 0.7 else k, fp)
                    break
                if c["kind"] == "struct" and fv in c["deps"] and fp not in c["deps"]:
                    st = u.structs[c["struct"]]
                    st["fields"].append(("F%d" % len(st["fields"]), fp))
                    c["deps"].append(fp)
                    break
    # a struct provider offers S and *S, built separately: let one provider function take both
    for it in list(u.items):
        if it["kind"] == "struct" and rng.random() < opts.get("p_both_struct_forms", 0.15):
            sv, sp = it["outs"]
            for c in u.items:
                if c["kind"] == "func" and (sv in c["deps"]) != (sp in c["deps"]) and not c.get("variadic"):
                    have, other = (sv, sp) if sv in c["deps"] else (sp, sv)
                    k = c["deps"].index(have)
                    c["deps"].insert(k + 1 if rng.random() < 0.5 else k, other)
                    break
    # --- sets ---------------------------------------------------------------------------------
    arg_items = [n for n, it in enumerate(u.items) if it["kind"] == "arg"]
    other = [n for n, it in enumerate(u.items) if it["kind"] != "arg"]
    nsets = rng.choice([1, 1, 2, 2, 3])
    place = {}
    for n in other:
        place[n] = rng.randrange(nsets)
    # a binding lives in the set that provides its concrete type
    for n in other:
        it = u.items[n]
        if it["kind"] == "bind" and it["conc"] in src and rng.random() < opts.get("colocate", 1.0):
            place[n] = place.get(src[it["conc"]], nsets - 1)      # an injector argument lives in the Build set
    sets = [{"id": uid * 100 + s, "items": [], "imports": [], "build": s == nsets - 1} for s in range(nsets)]
    for n in other:
        sets[place[n]]["items"].append(n)
    # drop empty non-build sets; chain imports
    keep = [s for s in sets if s["items"] or s["build"]]
    for idx, s in enumerate(keep[:-1]):
        into = rng.randrange(idx + 1, len(keep))
        keep[into]["imports"].append(idx)
    for s in keep:
        lv = max([pkg_level(u.items[n]["pkg"]) for n in s["items"]] + [0])
        for i2 in s["imports"]:
            lv = max(lv, pkg_level(keep[i2]["pkg"]))
        s["pkg"] = "app" if s["build"] else ["liba", "libb", "app"][max(lv, rng.choice([lv, lv, 2]))]
        s["var"] = "Set%d" % s["id"]
    # a set imported by exactly one other set of the same package (or of a package that may name all its items) is
    # now and then written in place, wire.NewSet(...) as an argument, instead of through a variable
    for idx, s in enumerate(keep[:-1]):
        users = [t for t in keep if idx in t["imports"]]
        if len(users) == 1 and rng.random() < opts.get("p_inline_set", 0.25):
            imp = users[0]
            lv = max([pkg_level(u.items[n].get("pkg", "app")) for n in s["items"]] + [pkg_level(keep[i2]["pkg"]) for i2 in s["imports"]] + [0])
            if pkg_level(imp["pkg"]) >= lv:
                s["inline"] = True
                s["pkg"] = imp["pkg"]
                if s["items"] and rng.random() < 0.5:
                    # a member nothing needs: the set as a whole still contributes, so this is well-formed
                    j = len(u.structs)
                    u.structs.append({"name": sname(u, j), "pkg": "app" if imp["pkg"] == "app" else imp["pkg"], "fields": [], "extra": [], "ptrrecv": False})
                    u.items.append({"kind": "value", "outs": [("v", j)], "deps": [], "pkg": u.structs[j]["pkg"], "id": new_id()})
                    src[("v", j)] = len(u.items) - 1
                    s["items"].append(len(u.items) - 1)
    if opts.get("p_wrap_build") and rng.random() < opts["p_wrap_build"] and (keep[-1]["items"] or keep[-1]["imports"]):
        # the injector lists one set variable of its own package: its body then mentions no other package
        b = keep[-1]
        stay = [n for n in b["items"] if u.items[n]["kind"] == "bind" and u.items[src[u.items[n]["conc"]]]["kind"] == "arg"
                if u.items[n]["conc"] in src]
        w = {"id": uid * 100 + 90, "items": [n for n in b["items"] if n not in stay], "imports": list(b["imports"]), "build": False,
             "pkg": "app", "var": "Set%d" % (uid * 100 + 90)}
        if w["items"] or w["imports"]:
            keep.insert(len(keep) - 1, w)
            b["items"], b["imports"] = stay, [len(keep) - 2]
    u.sets = keep
    # --- injector -----------------------------------------------------------------------------
    need_cleanup = any(it.get("cleanup") for it in u.items)
    need_err = any(it.get("err") for it in u.items)
    u.inj = {"name": "Init%d" % uid, "pkg": "app", "args": [u.items[n]["outs"][0] for n in arg_items], "out": root,
             "cleanup": need_cleanup or rng.random() < 0.2, "err": need_err or rng.random() < 0.2,
             "form": rng.choice(["plain", "plain", "panic", "noreturn"]),
             "argnames": None}
    rng.shuffle(u.inj["args"])
    # unused injector parameters are legal; they must not be confused with the designated ones
    if rng.random() < opts.get("p_extra_params", 0.3):
        cands = [("v", i) for i in range(nS)] + [("p", i) for i in range(nS)]
        cands = [t for t in cands if t not in src]
        rng.shuffle(cands)
        if root[0] == "i":
            # prefer the other form of the type that implements the result interface
            m = u.ifaces[root[1]]["impl"]
            pref = [t for t in cands if t[1] == m and not (t[0] == "v" and u.ifaces[root[1]]["ptr"])]
            cands = pref + [t for t in cands if t not in pref]
        for t in cands[:rng.randint(1, 2)]:
            u.items.append({"kind": "arg", "outs": [t], "deps": [], "id": new_id()})
            src[t] = len(u.items) - 1
            u.inj["args"].insert(rng.randint(0, len(u.inj["args"])), t)
    u.src = src
    return u


def make_twin(rng, u):
    """a second injector over the same declarations, provider sets and provider functions as unit u (one wire
    run analyses both: nothing learnt about the first may leak into the second); returns None if no other
    result type is available"""
    import copy
    build = u.sets[-1]
    closure_src = dict(u.src)
    cands = [t for t in closure_src if t != u.inj["out"] and u.items[closure_src[t]]["kind"] not in ("arg",) and t[0] != "s"]
    if not cands:
        return None
    out = rng.choice(cands)
    # what the new result needs
    need, todo = set(), [out]
    while todo:
        t = todo.pop()
        if t in need or t not in closure_src:
            continue
        need.add(t)
        todo.extend(u.items[closure_src[t]]["deps"])
    needed_items = {closure_src[t] for t in need}

    def set_used(k, seen=()):
        s = u.sets[k]
        return any(n in needed_items for n in s["items"]) or any(set_used(i) for i in s["imports"])
    t = copy.copy(u)
    t.shadow = True
    t.twin_of = u
    nb = dict(build)
    nb["id"] = build["id"] + 50
    nb["items"] = [n for n in build["items"] if n in needed_items]
    nb["imports"] = [i for i in build["imports"] if set_used(i)]
    nb.pop("order", None)
    t.sets = u.sets[:-1] + [nb]
    args = [u.items[n]["outs"][0] for n in needed_items if u.items[n]["kind"] == "arg"]
    t.inj = dict(u.inj)
    t.inj.update({"name": u.inj["name"] + "b", "args": [a for a in u.inj["args"] if a in args], "out": out,
                  "argnames": None, "argnames_resolved": None,
                  "cleanup": any(u.items[n].get("cleanup") for n in needed_items) or rng.random() < 0.2,
                  "err": any(u.items[n].get("err") for n in needed_items) or rng.random() < 0.2})
    t.tids = dict(u.tids)
    return t


def gen_prog(rng, name, opts):
    p = Prog(name)
    for k in range(rng.choice(opts.get("units", [1, 1, 2, 3]))):
        for _ in range(50):
            u = gen_unit(rng, k + 1, opts)
            if not contains_by_value_cycle(u):
                break
        u.prog = p
        p.units.append(u)
        if rng.random() < opts.get("p_twin", 0.3):
            t = make_twin(rng, u)
            if t is not None:
                t.prog = p
                p.units.append(t)
    return p


# ---- planner-protocol view ---------------------------------------------------------------------

def planner_case(u):
    """the same unit in the shape vlib.planner.parse_request returns (and as a request line)"""
    sets = []
    for s in u.sets:
        d = {"id": s["id"], "args": None, "imports": list(s["imports"]), "provs": [], "vals": [], "flds": [], "bnds": []}
        if s["build"]:
            d["args"] = [u.tid(t) for t in u.inj["args"]]
        for n in s["items"]:
            it = u.items[n]
            if it["kind"] in ("func", "struct"):
                d["provs"].append({"id": it["id"], "args": [u.tid(t) for t in it["deps"]], "outs": [u.tid(t) for t in it["outs"]],
                                   "isStruct": it["kind"] == "struct", "varargs": bool(it.get("variadic")),
                                   "hasCleanup": bool(it.get("cleanup")), "hasErr": bool(it.get("err"))})
            elif it["kind"] in ("value", "ivalue"):
                d["vals"].append({"id": it["id"], "out": u.tid(it["outs"][0])})
            elif it["kind"] == "field":
                d["flds"].append({"id": it["id"], "parent": u.tid(it["parent"]), "outs": [u.tid(t) for t in it["outs"]]})
            elif it["kind"] == "bind":
                d["bnds"].append({"id": it["id"], "iface": u.tid(it["outs"][0]), "provided": u.tid(it["conc"])})
        sets.append(d)
    out = u.tid(u.inj["out"])
    return {"op": "plan", "sets": sets, "out": out}


def type_string(u, td):
    """types.TypeString(t, nil) of the descriptor (what verifyAcyclic sorts by)"""
    k, i = td
    if k == "i":
        d = u.ifaces[i]
        return "%s.%s" % (u.prog.path(d["pkg"]), d["name"])
    d = u.structs[i]
    return {"v": "", "p": "*", "s": "[]"}[k] + "%s.%s" % (u.prog.path(d["pkg"]), d["name"])


MOD_OF = [MOD]


def request_line(u, case, progname):
    MOD_OF[0] = MOD + "/" + progname
    inv = {v: k for k, v in u.tids.items()}
    order = sorted(range(len(inv)), key=lambda n: type_string(u, inv[n]))
    w = []

    def lst(xs):
        w.append(len(xs))
        w.extend(xs)
    lst(order)
    w.append(len(case["sets"]))
    for s in case["sets"]:
        w.append(s["id"])
        if s["args"] is None:
            w.append(0)
        else:
            w.append(1)
            lst(s["args"])
        lst(s["imports"])
        w.append(len(s["provs"]))
        for p in s["provs"]:
            w.append(p["id"])
            lst(p["args"])
            lst(p["outs"])
            w += [int(p["isStruct"]), int(p["varargs"]), int(p["hasCleanup"]), int(p["hasErr"])]
        w.append(len(s["vals"]))
        for v in s["vals"]:
            w += [v["id"], v["out"]]
        w.append(len(s["flds"]))
        for f in s["flds"]:
            w += [f["id"], f["parent"]]
            lst(f["outs"])
        w.append(len(s["bnds"]))
        for b in s["bnds"]:
            w += [b["id"], b["iface"], b["provided"]]
    w.append(case["out"])
    return "plan " + " ".join(str(x) for x in w)


# ---- materialiser --------------------------------------------------------------------------------

def imports_for(prog, pkgs_used, frm, extra=()):
    lines = []
    for p in sorted(set(pkgs_used)):
        if p != frm:
            q = prog.qual(p)
            alias = "" if q == prog.pkgmap[p]["name"] else q + " "
            lines.append('\t%s"%s"' % (alias, prog.path(p)))
    for e in extra:
        lines.append('\t%s"%s"' % ((e.split()[0] + " ", e.split()[1]) if " " in e else ("", e)))
    return "import (\n" + "\n".join(lines) + "\n)\n" if lines else ""


def field_decl_type(u, td, frm):
    return gotype(u, td, frm)


def materialise(prog):
    """-> {relative path: content} for the packages of one program (under <progname>/)"""
    files = {}
    mimics = []
    for pkg in prog.pkgs:
        body, used = [], set()
        inj_body, inj_used = [], set()
        set_decls, decoys, refs, decoy_seen = [], [], [], set()
        pdir, pname = prog.pkgmap[pkg]["dir"], prog.pkgmap[pkg]["name"]
        if pkg == "app":
            body += list(prog.extra_decls)

        def T(u, td, bucket=None, frm=pkg):
            k, i = td
            owner = u.ifaces[i]["pkg"] if k == "i" else u.structs[i]["pkg"]
            (bucket if bucket is not None else used).add(owner)
            return gotype(u, td, frm)

        for u in prog.units:
            shadow = getattr(u, "shadow", False)     # a twin injector over another unit's declarations
            for i, st in enumerate([] if shadow else u.structs):
                if st["pkg"] != pkg:
                    continue
                lines = ["type %s struct {" % st["name"], "\tID int `wire:\"-\"`"]
                flines = ["\t%s %s" % (fname, T(u, td)) for fname, td in st["fields"]]
                # fields Wire must leave alone sit before, between and after the real ones (the position is fixed
                # per struct: a blank field first, then a prevented one, then a real one is the nasty order)
                for n, (fname, gt, tag) in enumerate(st["extra"]):
                    pos = (st.get("extra_pos") or [len(flines)] * len(st["extra"]))[n]
                    flines.insert(min(pos, len(flines)), "\t%s %s%s" % (fname, gt, (" `%s`" % tag) if tag else ""))
                lines += flines
                lines.append("}")
                body.append("\n".join(lines))
                body.append('func (x %s) WDesc() string { return fmt.Sprintf("%s#%%d{%%s}", x.ID, wtrace.Fields(x)) }' % (st["name"], st["name"]))
            for j, d in enumerate([] if shadow else u.ifaces):
                if d["pkg"] != pkg:
                    continue
                body.append("type %s interface {\n\tWDesc() string\n\tM%s()\n}" % (d["name"], d["name"]))
                impl = u.structs[d["impl"]]
                recv = "*" + impl["name"] if d["ptr"] else impl["name"]
                # the marker method must be declared in the package of the struct
                (body if impl["pkg"] == pkg else None)
            for j, d in enumerate([] if shadow else u.ifaces):
                impl = u.structs[d["impl"]]
                if impl["pkg"] == pkg:
                    recv = "*" + impl["name"] if d["ptr"] else impl["name"]
                    body.append("func (x %s) M%s() {}" % (recv, d["name"]))
            for it in ([] if shadow else u.items):
                if it.get("pkg") != pkg or it["kind"] != "func":
                    continue
                name = it.get("fn", "Prov%d" % it["id"])
                params = []
                for n, d in enumerate(it["deps"]):
                    if it["variadic"] and n == len(it["deps"]) - 1:
                        params.append("a%d ...%s" % (n, T(u, ("v", d[1]))))
                    else:
                        params.append("a%d %s" % (n, T(u, d)))
                out = it["outs"][0]
                res = [T(u, out)]
                if it["cleanup"]:
                    res.append("func()")
                if it["err"]:
                    res.append("error")
                rsig = res[0] if len(res) == 1 else "(" + ", ".join(res) + ")"
                label = "Prov%d" % it["id"]          # trace labels are logical names, whatever the function is called
                q = '"%s.%s"' % (pkg, label)
                dargs = "".join(", wtrace.D(a%d)" % n for n in range(len(it["deps"])))
                conc = it.get("ret_conc", out)
                k, i = conc
                st = u.structs[i]
                lit = T(u, ("v", i)) + "{ID: id_" + "".join(", %s: %s" % (f, fresh_value(u, td, T)) for f, td in st["fields"]) + "}"
                val = "&" + lit if k == "p" else lit
                zero = {"v": T(u, ("v", i)) + "{}", "p": "nil", "i": "nil", "s": "nil"}[out[0]]
                it["_sig"] = (name, ", ".join(params), rsig, zero)     # for methods that mimic the function (see below)
                lines = ["func %s(%s) %s {" % (name, ", ".join(params), rsig),
                         "\tid_, err_ := wtrace.Call(%s%s)" % (q, dargs)]
                fail = ["\tif err_ != nil {"]
                if it["err"]:
                    r = [zero]
                    if it["cleanup"]:
                        r.append('func() { wtrace.Log("BADCLEANUP %s.%s") }' % (pkg, label))
                    r.append("err_")
                    fail.append("\t\treturn " + ", ".join(r))
                else:
                    fail.append('\t\tpanic("plan fails a provider that cannot fail")')
                fail.append("\t}")
                lines += fail
                for n, d in enumerate(it["deps"]):
                    if d[0] == "p":
                        lines.append('\twtrace.Log("argaddr %d " + wtrace.Addr(a%d))' % (n, n))
                lines.append("\tval_ := " + val)
                lines.append('\twtrace.Log("made " + wtrace.D(val_))')
                if st["fields"] and k == "p":
                    for f, _ in st["fields"]:
                        lines.append('\twtrace.Log("addr %s.%s " + wtrace.Addr(&val_.%s))' % (st["name"], f, f))
                r = ["val_"]
                if it["cleanup"]:
                    r.append('func() { wtrace.Log(fmt.Sprintf("cleanup %s.%s #%%d", id_)) }' % (pkg, label))
                if it["err"]:
                    r.append("nil")
                lines.append("\treturn " + ", ".join(r))
                lines.append("}")
                body.append("\n".join(lines))
            # provider sets declared in this package
            for s in ([] if shadow else u.sets):
                if s["pkg"] != pkg or s["build"] or s.get("inline"):
                    continue
                # provider sets of library packages live in ordinary files; in the injector package
                # they may sit next to the injectors (and are then copied into wire_gen.go)
                if pkg != "app" or s["id"] % 2 == 0:
                    set_decls.append((s["var"], "wire.NewSet(%s)" % ", ".join(set_args(u, s, pkg, lambda td: T(u, td, used), used))))
                    # a decoy: a function-local variable of the same name holding another set (an alternative
                    # provider of the same type) must never be mistaken for the package-level one
                    fn_items = [u.items[n] for n in s["items"] if u.items[n]["kind"] == "func" and u.items[n].get("pkg") == pkg
                                and u.items[n]["outs"][0][0] in ("v", "p")]
                    if fn_items and (s["id"] + u.uid) % 3 != 0:
                        it = fn_items[0]
                        alt = "Alt%s" % it.get("fn", "Prov%d" % it["id"])
                        if alt not in decoy_seen:
                            decoy_seen.add(alt)
                            o = it["outs"][0]
                            zero = {"v": T(u, ("v", o[1])) + "{}", "p": "nil"}[o[0]]
                            decoys.append('func %s() %s {\n\twtrace.Log("call %s.%s() -> #0")\n\treturn %s\n}' % (alt, T(u, o), pkg, alt, zero))
                        decoys.append("func decoy%s%d() {\n\tvar %s = wire.NewSet(%s)\n\t_ = %s\n\t%s := wire.NewSet()\n\t_ = %s\n}"
                                      % (s["var"], u.uid, s["var"], alt, s["var"], alt, alt))
                else:
                    inj_body.append("var %s = wire.NewSet(%s)" % (s["var"], ", ".join(set_args(u, s, pkg, lambda td: T(u, td, inj_used), inj_used))))
                    # an ordinary file of the package mentions the set too: the copy in wire_gen.go must exist
                    refs.append("var _ = %s" % s["var"])
            if u.inj["pkg"] == pkg:
                s = u.sets[-1]
                inj = u.inj
                ptypes = [T(u, td, inj_used) for td in inj["args"]]
                # what the body of the template mentions (the signature is resolved outside the function's block, so a
                # parameter may be called like the package of its own type: `log *log.Logger`)
                body_used = set()
                build_args = set_args(u, s, pkg, lambda td: T(u, td, body_used), body_used)
                if inj["form"] not in ("panic", "noreturn") and inj["out"][0] == "v":
                    T(u, ("v", inj["out"][1]), body_used)
                inj_used |= body_used
                names = list(inj["argnames"]) if inj["argnames"] else ["arg%d" % n for n in range(len(ptypes))]
                if any(x.startswith("@") for x in names):
                    from . import e2e_names
                    names = e2e_names.resolve_param_names(prog, u, {prog.qual(q) for q in body_used} | {"wire"})
                # the user's own template must compile: a parameter may not shadow a package the
                # body of the template mentions, nor the builtin `new` it calls
                banned = {prog.qual(q) for q in body_used} | {"wire", "new", "panic"}
                names = [nm if nm not in banned else "q%d" % n for n, nm in enumerate(names)]
                inj["argnames_resolved"] = names
                # a parameter called like the package of its own struct type: give that type methods that look exactly like the
                # package's provider functions (log.Writer() / (*log.Logger).Writer()), so that a parameter capturing the package
                # name in the generated body is a type-correct, silent change of behaviour
                for nm, td in zip(names, inj["args"]):
                    if td[0] in ("v", "p") and getattr(prog, "mimic_methods", False):
                        st_ = u.structs[td[1]]
                        if st_["pkg"] != pkg and nm == prog.qual(st_["pkg"]):
                            mimics.append((u, td[1], st_["pkg"]))
                params = [("%s %s" % (nm, ty)).strip() for nm, ty in zip(names, ptypes)]
                res = [T(u, inj["out"], inj_used)]
                if inj["cleanup"]:
                    res.append("func()")
                if inj["err"]:
                    res.append("error")
                rsig = res[0] if len(res) == 1 else "(" + ", ".join(res) + ")"
                rn = inj.get("resnames")
                if rn:
                    # named results in the template (legal; the generated injector need not keep the names, but whatever it does
                    # with them must not interfere with the variables it invents)
                    taken = set(names) | {prog.qual(q) for q in body_used} | {"wire", "new", "panic"}
                    rn = [x if x not in taken else "r%d" % n for n, x in enumerate(rn[:len(res)])]
                    rsig = "(" + ", ".join("%s %s" % (x, t) for x, t in zip(rn, res)) + ")"
                k, i = inj["out"]
                zero = {"v": T(u, ("v", i), inj_used) + "{}" if k == "v" else "", "p": "nil", "i": "nil", "s": "nil"}[k]
                rets = [zero] + (["nil"] if inj["cleanup"] else []) + (["nil"] if inj["err"] else [])
                call = "wire.Build(%s)" % ", ".join(build_args)
                doc = "// %s builds %s.\n" % (inj["name"], res[0]) if inj["form"] != "noreturn" else ""
                if inj["form"] == "panic":
                    fbody = "\tpanic(%s)" % call
                elif inj["form"] == "noreturn":
                    fbody = "\tpanic(%s)" % call
                else:
                    fbody = "\t%s\n\treturn %s" % (call, ", ".join(rets))
                inj_body.append("%sfunc %s(%s) %s {\n%s\n}" % (doc, inj["name"], ", ".join(params), rsig, fbody))
        # set variables: singly, or two to a `var A, B = …, …` specification
        k = 0
        while k < len(set_decls):
            if k + 1 < len(set_decls) and (len(set_decls[k][0]) + k) % 3 == 0:
                body.append("var %s, %s = %s, %s" % (set_decls[k][0], set_decls[k + 1][0], set_decls[k][1], set_decls[k + 1][1]))
                k += 2
            else:
                body.append("var %s = %s" % set_decls[k])
                k += 1
        body += decoys
        body += refs
        if body:
            files["%s/%s.go" % (pdir, pkg)] = "package %s\n\n%s\n%s\n" % (
                pname, imports_for(prog, used, pkg, ["fmt", "github.com/google/wire", MOD + "/wtrace"]),
                "\n\n".join(body)) + "\nvar _ = fmt.Sprint\nvar _ = wtrace.D\nvar _ wire.ProviderSet\n\n// Anchor lets drivers import this package unconditionally.\nvar Anchor = 0\n"
        if inj_body and pkg == "app":
            # declarations next to the injectors, which Wire copies into its output
            inj_body += list(getattr(prog, "inj_helpers", []))
        wimp = getattr(prog, "wire_import", "plain")
        if inj_body and wimp != "plain":
            # the marker functions reached through a dot import or a renamed import
            rep_ = "" if wimp == "dot" else "wr."
            inj_body = [re.sub(r"\bwire\.", rep_, x) for x in inj_body]
        if inj_body:
            nfiles = getattr(prog, "inj_files", 1)
            if nfiles <= 1 or len(inj_body) < 2:
                files["%s/wire.go" % pdir] = "//go:build wireinject\n// +build wireinject\n\npackage %s\n\n%s\n%s\n" % (
                    pname, imports_for(prog, inj_used, pkg, [WIRE_IMPORT[wimp]] + (getattr(prog, "inj_helper_imports", []) if pkg == "app" else [])), "\n\n".join(inj_body))
            else:
                # the injectors of the package spread over several files (every file imports everything and says so)
                anchors = ["var _ = %s.Anchor" % prog.qual(q) for q in sorted(inj_used) if q != pkg] + [
                    "var _ %sProviderSet" % {"plain": "wire.", "dot": "", "renamed": "wr."}[wimp]]
                for k in range(min(nfiles, len(inj_body))):
                    part = inj_body[k::nfiles]
                    fname = ["wire.go", "a_wire.go", "z_inject.go", "m_wire.go"][k % 4] if k < 4 else "wire%d.go" % k
                    files["%s/%s" % (pdir, fname)] = "//go:build wireinject\n// +build wireinject\n\npackage %s\n\n%s\n%s\n\n%s\n" % (
                        pname, imports_for(prog, inj_used, pkg, [WIRE_IMPORT[wimp]] + (getattr(prog, "inj_helper_imports", []) if pkg == "app" else [])),
                        "\n".join(anchors + (["var _ = fmt.Sprint"] if pkg == "app" and getattr(prog, "inj_helper_imports", []) else [])), "\n\n".join(part))
        if inj_body and not body:
            files["%s/%s.go" % (pdir, pkg)] = "package %s\n\nvar Anchor = 0\n" % pname
    for u, si, lib in mimics:
        path = "%s/%s.go" % (prog.pkgmap[lib]["dir"], lib)
        st = u.structs[si]
        extra = []
        for it in u.items:
            if it["kind"] == "func" and it.get("pkg") == lib and "_sig" in it:
                name, params, rsig, zero = it["_sig"]
                r = [zero] + (["func() {}"] if it["cleanup"] else []) + (["nil"] if it["err"] else [])
                extra.append('func (x %s) %s(%s) %s {\n\twtrace.Log("CAPTURED %s.%s by a method of %s")\n\treturn %s\n}'
                             % (st["name"], name, params, rsig, lib, name, st["name"], ", ".join(r)))
        if extra and path in files:
            files[path] += "\n" + "\n\n".join(extra) + "\n"
    return files


LIT_DEPTH = 3


def go_lit(u, td, idf, T, depth=LIT_DEPTH):
    """composite literal of type td with every field populated (to `depth`); idf(path) gives the ID expr"""
    def lit(td, path, depth):
        k, i = td
        if k == "i":
            d = u.ifaces[i]
            return lit(("p" if d["ptr"] else "v", d["impl"]), path, depth)
        if k == "s":
            return "[]%s{%s}" % (T(u, ("v", i)), lit(("v", i), path, depth))
        st = u.structs[i]
        fs = ""
        if depth > 0:
            fs = "".join(", %s: %s" % (f, lit(ftd, path + (n,), depth - 1)) for n, (f, ftd) in enumerate(st["fields"]))
        body = "%s{ID: %s%s}" % (T(u, ("v", i)), idf(path), fs)
        return "&" + body if k == "p" else body
    return lit(td, (), depth)


def lit_id(base):
    def f(path):
        n = base
        for k in path:
            n = n * 10 + k + 1
        return str(n)
    return f


def desc_lit(u, td, base, depth=LIT_DEPTH):
    """what wtrace.D prints for go_lit(u, td, lit_id(base))"""
    def d(td, path, depth):
        k, i = td
        if k == "i":
            dd = u.ifaces[i]
            return d(("p" if dd["ptr"] else "v", dd["impl"]), path, depth)
        if k == "s":
            return "[" + d(("v", i), path, depth) + "]"
        st = u.structs[i]
        if depth > 0:
            fs = ";".join("%s=%s" % (f, d(ftd, path + (n,), depth - 1)) for n, (f, ftd) in enumerate(st["fields"]))
        else:
            fs = ";".join("%s=%s" % (f, zero_desc(u, ftd)) for f, ftd in st["fields"])
        body = "%s#%s{%s}" % (st["name"], lit_id(base)(path), fs)
        return "&" + body if k == "p" else body
    return d(td, (), depth)


def zero_desc(u, td):
    k, i = td
    if k != "v":
        return "nil"
    st = u.structs[i]
    return "%s#0{%s}" % (st["name"], ";".join("%s=%s" % (f, zero_desc(u, ftd)) for f, ftd in st["fields"]))


def fresh_value(u, td, T):
    return go_lit(u, td, lambda path: "wtrace.Fresh()", T, 2)


def contains_by_value_cycle(u):
    """Go rejects a struct that contains itself by value"""
    edges = {i: [ftd[1] for _, ftd in st["fields"] if ftd[0] == "v"] for i, st in enumerate(u.structs)}
    color = {}

    def dfs(i):
        color[i] = 1
        for j in edges[i]:
            if color.get(j) == 1 or (color.get(j) is None and dfs(j)):
                return True
        color[i] = 2
        return False
    return any(color.get(i) is None and dfs(i) for i in edges)


def set_args(u, s, frm, T, used):
    """Go spelling of the arguments of the wire.NewSet / wire.Build call for set s"""
    out = []

    def q(pkg, name):
        used.add(pkg)
        return name if pkg == frm else u.prog.qual(pkg) + "." + name
    entries = [("imp", k) for k in s["imports"]] + [("item", n) for n in s["items"]]
    order = s.get("order")
    if order:
        entries = [entries[k] for k in order]
    for kind, n in entries:
        if kind == "imp":
            t = u.sets[n]
            if t.get("inline"):
                out.append("wire.NewSet(%s)" % ", ".join(set_args(u, t, frm, T, used)))
            else:
                out.append(q(t["pkg"], t["var"]))
            continue
        it = u.items[n]
        k = it["kind"]
        if k == "func":
            out.append(q(it["pkg"], it.get("fn", "Prov%d" % it["id"])))
        elif k == "struct":
            st = u.structs[it["struct"]]
            names = ['"*"'] if it["all"] else ['"%s"' % f for f, _ in st["fields"]]
            out.append("wire.Struct(new(%s)%s)" % (T(("v", it["struct"])), "".join(", " + x for x in names)))
        elif k == "value":
            out.append("wire.Value(%s)" % go_lit(u, it["outs"][0], lit_id(50000 + it["id"]), lambda uu, td: T(td)))
        elif k == "ivalue":
            out.append("wire.InterfaceValue(new(%s), %s)" % (T(it["outs"][0]), go_lit(u, it["conc"], lit_id(50000 + it["id"]), lambda uu, td: T(td))))
        elif k == "field":
            out.append('wire.FieldsOf(new(%s), "%s")' % (T(it["parent"]), it["fname"]))
        elif k == "bind":
            out.append("wire.Bind(new(%s), new(%s))" % (T(it["outs"][0]), T(it["conc"])))
    return out


def driver_main(prog):
    """package main that runs every injector under every plan"""
    L = ['package main', '', 'import (', '\t"fmt"', '\t"%s/wtrace"' % MOD]
    pk = set()
    for u in prog.units:
        pk.add(u.inj["pkg"])
        for st in u.structs:
            pk.add(st["pkg"])          # nested literals may mention any struct
        for d in u.ifaces:
            pk.add(d["pkg"])
    for p in sorted(pk):
        q = prog.qual(p)
        L.append('\t%s"%s"' % ("" if q == prog.pkgmap[p]["name"] else q + " ", prog.path(p)))
    L += [')', '']
    for p in sorted(pk):
        L.append("var _ = %s.Anchor" % prog.qual(p))
    L += ['', 'func main() {']
    for u in prog.units:
        inj = u.inj
        plans = [[]] + [["%s.Prov%d" % (it["pkg"], it["id"])] for it in u.items if it.get("err")]
        # alternate: success, each failure, success again (no state may leak between calls)
        seq = []
        for pl in plans[1:]:
            seq += [pl, []]
        seq = [[]] + seq
        sig_args = []
        for n, td in enumerate(inj["args"]):
            if td[0] == "s":
                one = go_lit(u, ("v", td[1]), lit_id(9000 + n), lambda uu, x: gotype(uu, x, "main"))
                two = go_lit(u, ("v", td[1]), lit_id(9100 + n), lambda uu, x: gotype(uu, x, "main"))
                sig_args.append("[]%s{%s, %s}" % (gotype(u, ("v", td[1]), "main"), one, two))
            else:
                sig_args.append(go_lit(u, td, lit_id(9000 + n), lambda uu, x: gotype(uu, x, "main")))
        fn = "%s.%s" % (prog.qual(inj["pkg"]), inj["name"])
        # typed function variable: the generated implementation must have exactly this signature
        ptypes = [gotype(u, td, "main") for td in inj["args"]]
        res = [gotype(u, inj["out"], "main")] + (["func()"] if inj["cleanup"] else []) + (["error"] if inj["err"] else [])
        L.append("\t{")
        L.append("\t\tvar f func(%s) (%s) = %s" % (", ".join(ptypes), ", ".join(res), fn))
        for pl in seq:
            L.append("\t\twtrace.Reset()")
            for nm in pl:
                L.append('\t\twtrace.FailOn["%s"] = true' % nm)
            L.append('\t\tfmt.Println("RUN %s plan=%s")' % (inj["name"], ",".join(pl)))
            lhs = ["v"] + (["cl"] if inj["cleanup"] else []) + (["err"] if inj["err"] else [])
            L.append("\t\t{")
            L.append("\t\t\t%s := f(%s)" % (", ".join(lhs), ", ".join(sig_args)))
            L.append('\t\t\tfor _, l := range wtrace.Lines() { fmt.Println("T " + l) }')
            L.append('\t\t\tfmt.Println("RESULT " + wtrace.D(v))')
            if inj["err"]:
                same = " || ".join(["false"] + ['err == error(wtrace.ErrFor("%s"))' % nm for nm in pl])
                L.append('\t\t\tif err != nil { fmt.Println("ERR", err.Error(), "same=", %s) } else { fmt.Println("ERR nil") }' % same)
            if inj["cleanup"]:
                L.append('\t\t\tn := len(wtrace.Lines())')
                L.append('\t\t\tif cl == nil { fmt.Println("CLEANUP nil") } else { cl(); fmt.Println("CLEANUP called") }')
                L.append('\t\t\tfor _, l := range wtrace.Lines()[n:] { fmt.Println("C " + l) }')
            L.append("\t\t}")
        L.append("\t}")
    L.append("}")
    return "\n".join(L) + "\n"


# ---- planted defects (rejected programs) -----------------------------------------------------------

def plant(rng, u, kind):
    """mutate unit u so that Wire must reject it; returns a description or None if not applicable"""
    build = u.sets[-1]
    # items in the closure of the Build set (a twin injector does not import every library set)
    seen, todo, used_items = set(), [len(u.sets) - 1], []
    while todo:
        k = todo.pop()
        if k in seen:
            continue
        seen.add(k)
        used_items += u.sets[k]["items"]
        todo += u.sets[k]["imports"]
    # only what the result actually depends on can be "missing" (a set may hold a member nothing needs)
    reach0, todo0 = set(), [u.inj["out"]]
    while todo0:
        t0 = todo0.pop()
        if t0 in reach0 or t0 not in u.src:
            continue
        reach0.add(t0)
        todo0 += u.items[u.src[t0]]["deps"]
    if kind == "missing":
        cands = [n for n in used_items if u.items[n]["kind"] in ("func", "value", "ivalue") and u.items[n]["outs"][0] in reach0]
        if not cands:
            return None
        n = rng.choice(cands)
        for s in u.sets:
            if n in s["items"]:
                s["items"].remove(n)
        for t in u.items[n]["outs"]:
            u.src.pop(t, None)
        return "removed the source of %s" % (u.items[n]["outs"],)
    if kind == "missingtwin":
        # remove the source of a type whose namesake (same package name, same type name, other package) stays provided
        def namesake(t):
            k, i = t
            if k == "i" or k == "s":
                return None
            st = u.structs[i]
            for j, o in enumerate(u.structs):
                if j != i and o["name"] == st["name"] and o["pkg"] != st["pkg"] and \
                        u.prog.pkgmap[o["pkg"]]["name"] == u.prog.pkgmap[st["pkg"]]["name"] and (k, j) in u.src:
                    return (k, j)
            return None
        cands = [n for n in used_items if u.items[n]["kind"] in ("func", "value") and namesake(u.items[n]["outs"][0])
                 and u.items[n]["outs"][0] in reach0]
        if not cands:
            # make the shape: a needed namesake in the other package of the same name
            pm = u.prog.pkgmap
            if pm["liba"]["name"] != pm["libb"]["name"] or getattr(u, "shadow", False) or \
                    any(getattr(o, "twin_of", None) is u for o in u.prog.units):
                return None
            reach, todo = set(), [u.inj["out"]]
            while todo:
                t = todo.pop()
                if t in reach or t not in u.src:
                    continue
                reach.add(t)
                todo += u.items[u.src[t]]["deps"]
            vict = [n for n in used_items if u.items[n]["kind"] in ("func", "value") and u.items[n]["outs"][0] in reach
                    and u.items[n]["outs"][0] != u.inj["out"] and u.items[n]["outs"][0][0] in ("v", "p")
                    and u.structs[u.items[n]["outs"][0][1]]["pkg"] in ("liba", "libb")]
            # a provider function of the injector's package that is needed can take the namesake as a further argument
            hosts = [c for c in u.items if c["kind"] == "func" and c.get("pkg") in ("app", "libb") and c["outs"][0] in reach
                     and not c.get("variadic") and "ret_conc" not in c]
            rng.shuffle(vict)
            done = False
            for n in vict:
                k, i = u.items[n]["outs"][0]
                st = u.structs[i]
                other = {"liba": "libb", "libb": "liba"}[st["pkg"]]
                hs = [c for c in hosts if pkg_level(c["pkg"]) >= pkg_level(other) and c is not u.items[n]]
                if any(o["name"] == st["name"] and o["pkg"] == other for uu in u.prog.units for o in uu.structs) or not hs:
                    continue
                j = len(u.structs)
                u.structs.append({"name": st["name"], "pkg": other, "fields": [], "extra": [], "ptrrecv": False})
                u.items.append({"kind": "value", "outs": [(k, j)], "deps": [], "pkg": other,
                                "id": max(x["id"] for x in u.items) + 400})
                u.src[(k, j)] = len(u.items) - 1
                build["items"].append(len(u.items) - 1)
                build.pop("order", None)
                host = rng.choice(hs)
                host["deps"].insert(rng.randint(0, len(host["deps"])), (k, j))
                cands = [n]
                done = True
                break
            hs = [c for c in hosts if c.get("pkg") == "app"] or [c for c in hosts if c.get("pkg") == "libb"]
            if not done and hs:
                # no suitable victim: two new types of one name, one in each of the same-named packages, both needed
                nm = "Twin%d" % u.uid
                host = rng.choice(hs)
                k = rng.choice(["v", "p"])
                new = []
                for pk in (["liba", "libb"] if host["pkg"] == "app" else ["liba"]):
                    j = len(u.structs)
                    u.structs.append({"name": nm, "pkg": pk, "fields": [], "extra": [], "ptrrecv": False})
                    u.items.append({"kind": "value", "outs": [(k, j)], "deps": [], "pkg": pk, "id": max(x["id"] for x in u.items) + 400})
                    u.src[(k, j)] = len(u.items) - 1
                    build["items"].append(len(u.items) - 1)
                    host["deps"].insert(rng.randint(0, len(host["deps"])), (k, j))
                    new.append(len(u.items) - 1)
                if len(new) == 2:
                    build.pop("order", None)
                    cands = [rng.choice(new)]
                    done = True
            if not done:
                return None
        n = rng.choice(cands)
        for s in u.sets:
            if n in s["items"]:
                s["items"].remove(n)
        for t in u.items[n]["outs"]:
            u.src.pop(t, None)
        return "removed the source of %s, whose namesake in the other package of the same name is still provided" % (u.items[n]["outs"],)
    if kind == "missingform":
        # wire.FieldsOf(new(S)) needs S (or *S); the program only supplies the other form — as an injector argument, so
        # that it is available before anything else is looked at.  T is not *T.
        if getattr(u, "shadow", False) or any(getattr(o, "twin_of", None) is u for o in u.prog.units):
            return None
        cands = []
        for n in used_items:
            f = u.items[n]
            if f["kind"] not in ("field", "bind"):
                continue
            # a binding needs the concrete type exactly as written: wire.Bind(new(I), new(T)) is not served by *T
            k, m = f["parent"] if f["kind"] == "field" else f["conc"]
            other = ("p" if k == "v" else "v", m)
            if (k, m) in u.src and other not in u.src and u.items[u.src[(k, m)]]["kind"] in ("func", "value") and f["outs"][0] in reach0:
                cands.append((n, (k, m), other))
        if not cands:
            return None
        n, par, other = rng.choice(cands)
        pidx = u.src[par]
        for st in u.sets:
            if pidx in st["items"]:
                st["items"].remove(pidx)
        for t in u.items[pidx]["outs"]:
            u.src.pop(t, None)
        u.items.append({"kind": "arg", "outs": [other], "deps": [], "id": max(x["id"] for x in u.items) + 450})
        u.src[other] = len(u.items) - 1
        u.inj["args"].append(other)
        if u.inj.get("argnames"):
            u.inj["argnames"] = list(u.inj["argnames"]) + ["formarg"]
        return "the %s %s has no source; only %s is supplied (as an injector argument)" % (
            "parent of a field selection" if u.items[n]["kind"] == "field" else "concrete type of an interface binding", par, other)
    if kind == "dup":
        cands = [n for n in used_items if u.items[n]["kind"] == "value"]
        if not cands:
            return None
        n = rng.choice(cands)
        it = dict(u.items[n])
        it["id"] = u.items[n]["id"] + 500
        u.items.append(it)
        build["items"].append(len(u.items) - 1)
        return "second value for %s" % (it["outs"],)
    if kind == "dupunexp":
        # two sources of one type, one of which the injector's package could not even name: an unexported provider function in a
        # set of a library package, and a value of the same type given directly to wire.Build.  Still ambiguous.
        if getattr(u, "shadow", False) or any(getattr(o, "twin_of", None) is u for o in u.prog.units):
            return None
        for st in u.sets:
            if st["build"] or st["pkg"] == u.inj["pkg"]:
                continue
            cands = [n for n in st["items"] if n in used_items and u.items[n]["kind"] == "func" and u.items[n]["pkg"] == st["pkg"]
                     and u.items[n]["outs"][0][0] in ("v", "p")]
            if cands:
                n = rng.choice(cands)
                u.items[n]["fn"] = "prov%d" % u.items[n]["id"]
                t = u.items[n]["outs"][0]
                u.items.append({"kind": "value", "outs": [t], "deps": [], "pkg": "app", "id": max(x["id"] for x in u.items) + 470})
                build["items"].append(len(u.items) - 1)
                return "provider %s of package %s is unexported, and wire.Build lists a value of the same type %s" % (u.items[n]["fn"], st["pkg"], t)
        return None
    if kind == "duparg":
        # an injector parameter of a type that a used item of the build set (possibly nested) provides as well; the parameter is
        # mostly blank-named (`_ T`), which is legal and must not exempt it from the ambiguity check
        if getattr(u, "shadow", False) or any(getattr(o, "twin_of", None) is u for o in u.prog.units):
            return None
        cands = [(n, t) for n in used_items if u.items[n]["kind"] in ("func", "value", "struct", "field")
                 for t in u.items[n]["outs"] if t[0] in ("v", "p")]
        args_now = [t for t in u.inj["args"] if t[0] in ("v", "p")]
        if args_now and rng.random() < 0.3:
            t = rng.choice(args_now)              # inject(_ T, x T): two parameters of one type
            what = "another parameter"
        elif cands:
            n, t = rng.choice(cands)
            if t in u.inj["args"]:
                return None
            what = "item %d" % u.items[n]["id"]
        else:
            return None
        names = list(u.inj.get("argnames") or ["arg%d" % k for k in range(len(u.inj["args"]))])
        u.items.append({"kind": "arg", "outs": [t], "deps": [], "id": max(x["id"] for x in u.items) + 460})
        u.inj["args"].append(t)
        u.inj["argnames"] = names + ["_" if rng.random() < 0.7 else "dupArg"]
        return "parameter %s of type %s, which %s provides as well" % (u.inj["argnames"][-1], t, what)
    if kind == "dupset":
        # a set the Build already contains (through a set that imports it) is listed once more, after its superset
        cands = []
        for k in build["imports"]:
            for j in u.sets[k]["imports"]:
                if u.sets[j]["items"] and j not in build["imports"]:
                    cands.append((k, j))
        if getattr(u, "shadow", False) or any(getattr(o, "twin_of", None) is u for o in u.prog.units):
            return None
        if not cands:
            # make the shape: split a leaf set off a set the Build imports
            pool = [k for k in build["imports"] if [n for n in u.sets[k]["items"] if u.items[n]["kind"] != "bind"]]
            if not pool:
                return None
            k = rng.choice(pool)
            n = rng.choice([n for n in u.sets[k]["items"] if u.items[n]["kind"] != "bind"])
            u.sets[k]["items"].remove(n)
            sid = max(t["id"] for t in u.sets) + 1
            leaf = {"id": sid, "items": [n], "imports": [], "build": False, "pkg": u.sets[k]["pkg"], "var": "Set%d" % sid}
            # the leaf must come before the set that imports it: renumber
            for t in u.sets:
                t["imports"] = [i + 1 if i >= k else i for i in t["imports"]]
            u.sets.insert(k, leaf)
            u.sets[k + 1]["imports"].append(k)
            cands = [(k + 1, k)]
        k, j = rng.choice(cands)
        build["imports"].append(j)
        build.pop("order", None)
        return "set %s is reached twice: through %s and directly" % (u.sets[j]["var"], u.sets[k]["var"])
    if kind == "cycle2":
        # two sets that are acyclic each (each needs what the other provides) are merged by a set that has no item of
        # its own, and the Build lists nothing but sets either; the injector does not need the cyclic part
        if getattr(u, "shadow", False) or any(getattr(o, "twin_of", None) is u for o in u.prog.units):
            return None
        ix = len(u.structs)
        for n in range(2):
            u.structs.append({"name": sname(u, ix + n), "pkg": "app", "fields": [], "extra": [], "ptrrecv": False})
        base = max([it["id"] for it in u.items] + [u.uid * 1000]) + 700
        for n, (o, d) in enumerate([(ix, ix + 1), (ix + 1, ix)]):
            u.items.append({"kind": "func", "outs": [("v", o)], "deps": [("v", d)], "cleanup": False, "err": False,
                            "variadic": False, "pkg": "app", "id": base + n})
            u.src[("v", o)] = len(u.items) - 1
        fa, fb = len(u.items) - 2, len(u.items) - 1
        sid = max(t["id"] for t in u.sets) + 1
        mk = lambda k, items, imports: {"id": sid + k, "items": items, "imports": imports, "build": False, "pkg": "app",
                                         "var": "Set%d" % (sid + k)}
        n0 = len(u.sets) - 1
        new = [mk(0, [fa], []), mk(1, [fb], []), mk(2, [], [n0, n0 + 1]), mk(3, list(build["items"]), [])]
        u.sets[n0:n0] = new          # the Build set stays last; nothing imports it
        build["items"] = []
        build["imports"] = list(build["imports"]) + [n0 + 3, n0 + 2]
        build.pop("order", None)
        return "cycle between %s and %s spread over two sets merged by a set of sets" % (u.structs[ix]["name"], u.structs[ix + 1]["name"])
    if kind == "unusedtwin":
        # a superfluous provider function whose printed name (package name + function name) equals that of a provider
        # the injector does use: same-named packages, same-named functions
        pm = u.prog.pkgmap
        if pm["liba"]["name"] != pm["libb"]["name"] or getattr(u, "shadow", False):
            return None
        names = {p: {it.get("fn", "Prov%d" % it["id"]) for o in u.prog.units for it in o.items if it.get("pkg") == p and it["kind"] == "func"}
                 for p in ("liba", "libb")}
        needed_types = set()
        todo = [u.inj["out"]]
        while todo:
            t = todo.pop()
            if t in needed_types or t not in u.src:
                continue
            needed_types.add(t)
            todo += u.items[u.src[t]]["deps"]
        cands = [n for n in build["items"] if u.items[n]["kind"] == "func" and u.items[n].get("pkg") in ("liba", "libb")
                 and u.items[n]["outs"][0] in needed_types
                 and u.items[n].get("fn", "Prov%d" % u.items[n]["id"]) not in names[{"liba": "libb", "libb": "liba"}[u.items[n]["pkg"]]]]
        if not cands:
            return None
        a = u.items[rng.choice(cands)]
        other = {"liba": "libb", "libb": "liba"}[a["pkg"]]
        iz = len(u.structs)
        u.structs.append({"name": sname(u, iz), "pkg": other, "fields": [], "extra": [], "ptrrecv": False})
        u.items.append({"kind": "func", "outs": [("v", iz)], "deps": [], "cleanup": False, "err": False, "variadic": False,
                        "pkg": other, "id": max(it["id"] for it in u.items) + 300, "fn": a.get("fn", "Prov%d" % a["id"])})
        u.src[("v", iz)] = len(u.items) - 1
        build["items"].append(len(u.items) - 1)
        build.pop("order", None)
        return "superfluous provider %s of the other package called %s" % (u.items[-1]["fn"], pm[other]["name"])
    if kind == "emptyinline":
        # wire.NewSet() written in place among the arguments of wire.Build: an item that contributes nothing
        if getattr(u, "shadow", False):
            return None
        sid = max(t["id"] for t in u.sets) + 1
        n0 = len(u.sets) - 1
        u.sets.insert(n0, {"id": sid, "items": [], "imports": [], "build": False, "pkg": "app", "var": "Set%d" % sid, "inline": True})
        build["imports"] = list(build["imports"]) + [n0]
        build.pop("order", None)
        return "an empty provider set written in place"
    if kind == "unused":
        i = len(u.structs)
        u.structs.append({"name": sname(u, i), "pkg": "app", "fields": [], "extra": [], "ptrrecv": False})
        it = {"kind": "value", "outs": [("v", i)], "deps": [], "pkg": "app", "id": u.uid * 1000 + 900}
        u.items.append(it)
        build["items"].append(len(u.items) - 1)
        u.src[("v", i)] = len(u.items) - 1
        return "superfluous value of a type nothing needs"
    if kind == "twinunused":
        # the twin injector lists a provider function that only its sibling needs
        if not getattr(u, "shadow", False):
            return None
        sib = u.twin_of.sets[-1]
        cands = [n for n in sib["items"] if n not in build["items"] and u.items[n]["kind"] == "func"]
        if not cands:
            return None
        n = rng.choice(cands)
        build["items"].append(n)
        return "provider Prov%d is needed by %s only" % (u.items[n]["id"], u.twin_of.inj["name"])
    if kind == "unexported":
        # an unexported provider function of a library package, reached through that package's own set
        for s in u.sets:
            if s["build"] or s["pkg"] == u.inj["pkg"]:
                continue
            cands = [n for n in s["items"] if u.items[n]["kind"] == "func" and u.items[n]["pkg"] == s["pkg"]]
            if cands:
                n = rng.choice(cands)
                u.items[n]["fn"] = "prov%d" % u.items[n]["id"]
                return "provider %s of package %s is unexported" % (u.items[n]["fn"], s["pkg"])
        return None
    def needed():
        out, todo, seen = [], [u.inj["out"]], set()
        while todo:
            t = todo.pop()
            if t in seen or t not in u.src:
                continue
            seen.add(t)
            it = u.items[u.src[t]]
            out.append(it)
            todo.extend(it["deps"])
        return out
    if kind == "neederr":
        if not any(it.get("err") for it in needed() if it["kind"] == "func"):
            return None
        u.inj["err"] = False
        return "injector does not return error although a provider can fail"
    if kind == "needcleanup":
        if not any(it.get("cleanup") for it in needed() if it["kind"] == "func"):
            return None
        u.inj["cleanup"] = False
        return "injector does not return a cleanup although a provider has one"
    return None
