"""C20: unusual but type-correct spellings of the Wire marker-function arguments and unusual injector
result types.  One package per spelling, so that a crash is attributable."""
import os
import re
import shutil

from .cmdtier import Workspace, panicked, MOD
from .common import GOENV, run, log

PRELUDE = '''package {pkg}

import (
	"errors"
	"unsafe"

	"github.com/google/wire"
)

type T struct {{
	X int
	Y string
}}

type PT = *T

type I interface{{ M() }}

func (T) M() {{}}

type G[A any] struct{{ V A }}

type F func() int

type D struct {{
	A, B string
	C    int
}}

type BL struct {{
	_ struct{{}}
	X int
	_ int
}}

type E struct {{
	T
	N int64
}}

type PS = wire.ProviderSet

type holder struct{{ S wire.ProviderSet }}

var (
	_ = errors.New
	_ unsafe.Pointer
)

func NewT() T {{ return T{{}} }}
func NewPT() *T {{ return &T{{}} }}
func NewInt() int {{ return 1 }}
func NewStr() string {{ return "s" }}
func NewIntErr() (int, error) {{ return 1, nil }}
func two() (int, int) {{ return 1, 2 }}
func fn() int {{ return 1 }}
func GenericNew[A any]() A {{ var a A; return a }}

var ptrVar = &T{{}}
var ch = make(chan int, 1)
var fvar F = fn
var ifaceVal I = T{{}}

const fieldName = "X"
'''

HDR = '''//go:build wireinject
// +build wireinject

package {pkg}

import (
{imports}
)

var _ = unsafe.Sizeof(0)
'''


def inj(name, result, build, ret=None, extra=""):
    if ret is None:
        return "func %s() %s {\n\tpanic(%s)\n}\n%s" % (name, result, build, extra)
    return "func %s() %s {\n\t%s\n\treturn %s\n}\n%s" % (name, result, build, ret, extra)


def spellings():
    """-> list of (label, wire-import-form, body of the injector file after the header)"""
    W = "wire"
    out = []

    def add(label, body, imp="plain"):
        out.append((label, imp, body))
    # --- wire.Struct first argument / field names
    for k, first in enumerate(["new(T)", "&T{}", "ptrVar", "new(G[int])", "new(struct{ X int })", "(*T)(nil)", "new(*T)", "new(I)", "nil",
                               "0", '"str"', "T{}", "NewPT()", "new(PT)", "new(F)", "new([2]T)"]):
        for j, fields in enumerate(['"*"', '"X"', "`X`", "fieldName", '"X" + ""', '"X", "Y"', '"*", "X"', "", '"Z"', '"x"']):
            if k > 2 and j > 1:
                continue
            args = first + (", " + fields if fields else "")
            res = "G[int]" if "G[int]" in first else ("struct{ X int }" if "struct{" in first else "T")
            add("struct/%d/%d" % (k, j), inj("Init", res, "%s.Build(%s.Struct(%s), NewInt, NewStr)" % (W, W, args)))
    # --- struct shapes: same-typed fields, blank fields, embedded fields
    for k, (ty, fields) in enumerate([("D", '"*"'), ("D", '"A", "B"'), ("D", '"A", "C"'), ("D", '"A", "A"'), ("D", '"C", "B", "A"'),
                                      ("BL", '"*"'), ("BL", '"_"'), ("BL", '"X"'), ("BL", '"X", "_"'),
                                      ("E", '"*"'), ("E", '"T"'), ("E", '"N"'), ("E", '"X"'), ("E", '"T", "N"')]):
        add("shape-struct/%d" % k, inj("Init", ty, "wire.Build(wire.Struct(new(%s), %s), NewInt, NewStr, NewT, wire.Value(int64(1)), "
                                                   "wire.Value(struct{}{}))" % (ty, fields)))
        add("shape-structptr/%d" % k, inj("Init", "*" + ty, "wire.Build(wire.Struct(new(%s), %s), NewInt, NewStr, NewT, wire.Value(int64(1)), "
                                                            "wire.Value(struct{}{}))" % (ty, fields)))
    for k, (ty, fields, res) in enumerate([("D", '"A"', "string"), ("D", '"A", "B"', "string"), ("D", '"C"', "int"), ("BL", '"_"', "int"),
                                           ("BL", '"X"', "int"), ("E", '"T"', "T"), ("E", '"N"', "int64"), ("E", '"X"', "int"), ("E", '"*"', "int64")]):
        add("shape-fieldsof/%d" % k, "func mk%s() %s { var z %s; return z }\n\n" % (ty, ty, ty)
            + inj("Init", res, "wire.Build(mk%s, wire.FieldsOf(new(%s), %s))" % (ty, ty, fields)))
    # --- package-level variables of type wire.ProviderSet with unusual values, unused and used
    for k, init in enumerate(["wire.ProviderSet{}", "PS{}", "*new(wire.ProviderSet)", "mkSet()", "wire.ProviderSet(Base)", "(wire.NewSet(NewInt))",
                              "func() wire.ProviderSet { return wire.NewSet(NewInt) }()", "[]wire.ProviderSet{wire.NewSet(NewInt)}[0]",
                              "map[int]wire.ProviderSet{}[0]", "holder{}.S", "(Base)", "*&Base", "PS(wire.NewSet(NewInt))"]):
        decl = "func mkSet() wire.ProviderSet { return wire.NewSet(NewInt) }\n\nvar Base = wire.NewSet(NewInt)\n\nvar Odd = %s\n\n" % init
        add("setvar/unused/%d" % k, decl + inj("Init", "int", "wire.Build(NewInt)"))
        add("setvar/used/%d" % k, decl + inj("Init", "int", "wire.Build(Odd)"))
        add("setvar/nested/%d" % k, decl + "var Outer = wire.NewSet(Odd)\n\n" + inj("Init", "int", "wire.Build(Outer)"))
    add("setvar/typed-novalue", "var Odd PS\n\n" + inj("Init", "int", "wire.Build(NewInt)"))
    add("setvar/alias-type-only", "type PS2 = wire.ProviderSet\n\n" + inj("Init", "int", "wire.Build(NewInt)"))
    add("setvar/defined-type", "type MySet wire.ProviderSet\n\nvar Odd = MySet(wire.NewSet(NewInt))\n\n" + inj("Init", "int", "wire.Build(NewInt)"))
    add("setvar/pointer", "var Base = wire.NewSet(NewInt)\n\nvar Odd = &Base\n\n" + inj("Init", "int", "wire.Build(NewInt)"))
    add("setvar/const-like", "var Odd, Even = wire.NewSet(NewInt), wire.ProviderSet{}\n\n" + inj("Init", "int", "wire.Build(Odd)"))
    # --- wire.FieldsOf
    for k, first in enumerate(["new(T)", "new(*T)", "new(*int)", "new(int)", "&T{}", "new(**T)", "nil", "ptrVar", "new(PT)", "new(G[int])",
                               "new(*G[int])", "new(struct{ X int })", "new(I)"]):
        for j, fields in enumerate(['"X"', "fieldName", '"X", "Y"', '"V"', "`X`", ""]):
            if k > 1 and j > 1 and not (j == 3 and "G[" in first):
                continue
            args = first + (", " + fields if fields else "")
            add("fieldsof/%d/%d" % (k, j), inj("Init", "int", "%s.Build(NewT, NewPT, %s.FieldsOf(%s))" % (W, W, args)))
    # --- wire.Bind, under three import forms
    for k, (a, b) in enumerate([("new(I)", "new(T)"), ("new(I)", "new(*T)"), ("nil", "nil"), ("new(T)", "new(T)"), ("(*I)(nil)", "(*T)(nil)"),
                                ("new(I)", "ptrVar"), ("new(I)", "T{}"), ("new(I)", "new(I)"), ("new(error)", "new(T)"), ("new(interface{})", "new(T)"),
                                ("new(any)", "new(int)")]):
        for imp in ("plain", "renamed", "dot"):
            w = {"plain": "wire.", "renamed": "w.", "dot": ""}[imp]
            add("bind/%d/%s" % (k, imp), inj("Init", "I", "%sBuild(NewT, NewPT, %sBind(%s, %s))" % (w, w, a, b)), imp)
    # --- wire.Value / InterfaceValue
    for k, e in enumerate(["nil", "42", '"s"', "T{}", "&T{}", "struct{}{}", "[]int{1}", "map[string]int{}", "<-ch", "fn()", "fvar()", "T.M", "fn",
                           "ifaceVal", "(*T)(nil)", "[2]int{}", "func() int { return 1 }", "unsafe.Pointer(nil)", "F(nil)", "ptrVar.X", "*ptrVar",
                           "ptrVar", "len(\"abc\")", "G[int]{}", "GenericNew[int]", "1 + 2", "-1", "!true", "fieldName", "errors.New"]):
        add("value/%d" % k, inj("Init", "T", "wire.Build(NewT, wire.Value(%s))" % e))
    for k, (a, b) in enumerate([("new(I)", "T{}"), ("new(T)", "T{}"), ("nil", "T{}"), ("(*I)(nil)", "T{}"), ("new(I)", "ifaceVal"),
                                ("new(error)", 'errors.New("x")'), ("new(I)", "nil"), ("new(any)", "1"), ("new(I)", "fn()")]):
        add("ivalue/%d" % k, inj("Init", "I", "wire.Build(wire.InterfaceValue(%s, %s))" % (a, b)))
    # --- arguments of wire.Build / NewSet
    for k, e in enumerate(["nil", "true", "42", '"s"', "fvar", "T{}.M", "func() int { return 1 }", "GenericNew[int]", "T{}", "&T{}", "len", "print",
                           "fieldName", "ptrVar", "ch", "ifaceVal", "wire.NewSet", "wire.Build", "(NewInt)", "((NewInt))", "wire.NewSet()",
                           "wire.NewSet(wire.NewSet(NewInt))", "errors.New", "unsafe.Sizeof", "two", "struct{}{}", "G[int]{}", "new(T)", "NewInt()",
                           "[]int{}", "SetA", "SetB", "SetC", "AliasSet"]):
        extra = "\nvar SetA, SetB = wire.NewSet(NewInt), wire.NewSet()\n\nvar SetC = SetA\n\nvar AliasSet wire.ProviderSet\n"
        add("build/%d" % k, inj("Init", "int", "wire.Build(NewInt, %s)" % e, extra=extra if "Set" in e else ""))
        if k < 12:
            add("newset/%d" % k, "var S = wire.NewSet(NewInt, %s)\n\n" % e + inj("Init", "int", "wire.Build(S)"))
    add("sets/multi", "func twoSets() (wire.ProviderSet, wire.ProviderSet) { return wire.NewSet(), wire.NewSet() }\n\n"
                      "var A, B = twoSets()\n\n" + inj("Init", "int", "wire.Build(NewInt)"))
    add("sets/multi-used", "func twoSets() (wire.ProviderSet, wire.ProviderSet) { return wire.NewSet(NewInt), wire.NewSet() }\n\n"
                           "var A, B = twoSets()\n\n" + inj("Init", "int", "wire.Build(A)"))
    add("sets/novalue", "var Empty wire.ProviderSet\n\n" + inj("Init", "int", "wire.Build(NewInt, Empty)"))
    add("sets/local", "func Init() int {\n\tpanic(wire.Build(NewInt))\n}\n\nfunc other() { s := wire.NewSet(NewInt); _ = s }\n")
    # --- injector result types (an error-returning provider forces the zero value to be emitted)
    kinds = ["int", "string", "bool", "float64", "complex128", "unsafe.Pointer", "uintptr", "[3]int", "[]int", "map[string]int", "chan int",
             "func()", "func(int) string", "*T", "T", "struct{ X int }", "interface{}", "error", "I", "G[int]", "*G[int]", "PT", "F", "any",
             "[0]T", "<-chan T", "rune", "byte"]
    for k, t in enumerate(kinds):
        body = ("type N%d %s\n\nfunc MkN() (N%d, error) { var z N%d; return z, nil }\n\nfunc MkU() (%s, error) { var z %s; return z, nil }\n\n"
                % (k, t, k, k, t, t))
        add("result/named/%d" % k, body + inj("Init", "(N%d, error)" % k, "wire.Build(MkN)"))
        add("result/unnamed/%d" % k, body + inj("Init", "(%s, error)" % t, "wire.Build(MkU)"))
    # --- injector shapes
    add("shape/extra-stmt", "func Init() int {\n\tx := 1\n\t_ = x\n\twire.Build(NewInt)\n\treturn 0\n}\n")
    add("shape/two-builds", "func Init() int {\n\twire.Build(NewInt)\n\twire.Build(NewInt)\n\treturn 0\n}\n")
    add("shape/method", "func (T) Init() int {\n\tpanic(wire.Build(NewInt))\n}\n")
    add("shape/generic", "func Init[A any]() int {\n\tpanic(wire.Build(NewInt))\n}\n")
    add("shape/named-results", "func Init() (n int, err error) {\n\tpanic(wire.Build(NewIntErr))\n}\n")
    add("shape/variadic", "func Init(xs ...string) int {\n\tpanic(wire.Build(NewInt))\n}\n")
    add("shape/no-result", "func Init() {\n\tpanic(wire.Build(NewInt))\n}\n")
    add("shape/build-in-expr", "func Init() int {\n\t_ = wire.Build(NewInt)\n\treturn 0\n}\n")
    add("shape/build-arg-call", "func Init() int {\n\tpanic(wire.Build(wire.NewSet(NewInt)))\n}\n")
    add("shape/blank-param", "func Init(_ string, _ bool) int {\n\tpanic(wire.Build(NewInt))\n}\n")
    return out


def materialise(ws, idx, label, imp, body):
    pkg = "q%d" % idx
    d = ws.root + "/" + pkg
    os.makedirs(d, exist_ok=True)
    open(d + "/a.go", "w").write(PRELUDE.format(pkg=pkg))
    imports = {"plain": '\t"github.com/google/wire"', "renamed": '\tw "github.com/google/wire"', "dot": '\t. "github.com/google/wire"'}[imp]
    imports += '\n\t"errors"\n\t"unsafe"'
    src = HDR.format(pkg=pkg, imports=imports) + "\nvar _ = errors.New\n\n" + body
    open(d + "/wire.go", "w").write(src)
    return pkg


def run_c20(rep, tier, known):
    ws = Workspace()
    fails = []
    stats = {"spellings": 0, "type_correct": 0, "accepted": 0, "rejected": 0, "panics": 0}
    try:
        cases = spellings()
        pkgs = []
        for i, (label, imp, body) in enumerate(cases):
            pkgs.append((materialise(ws, i, label, imp, body), label, body))
        stats["spellings"] = len(pkgs)
        # keep the type-correct ones
        rc, out, err = run(["go", "vet", "-tags", "wireinject", "./..."], cwd=ws.root, env=dict(GOENV), timeout=600)
        badpk = set(re.findall(r"(?m)^# %s/(q\d+)" % re.escape(MOD), out + err))
        badpk |= set(re.findall(r"(?m)^(?:\./)?(q\d+)/[\w.]+\.go:\d+", out + err))
        good = [(p, l, b) for p, l, b in pkgs if p not in badpk]
        for p, _, _ in pkgs:
            if p in badpk:
                shutil.rmtree(ws.root + "/" + p)
        stats["type_correct"] = len(good)
        gens = ws.wire_many([["gen", "./" + p] for p, _, _ in good], timeout=60)
        checks = ws.wire_many([["check", "./" + p] for p, _, _ in good], timeout=60)
        shows = ws.wire_many([["show", "./" + p] for p, _, _ in good], timeout=60)
        for (p, label, body), (rc, out, err), (rc2, out2, err2), (rc3, out3, err3) in zip(good, gens, checks, shows):
            rep.evaluations += 1
            why = []
            for cmd, c, e in (("gen", rc, err), ("check", rc2, err2), ("show", rc3, err3)):
                if panicked(e) or c not in (0, 1):
                    stats["panics"] += 1
                    site = re.search(r"(internal/wire/\w+\.go:\d+|cmd/wire/\w+\.go:\d+)", e)
                    m = re.search(r"panic: (.*)", e)
                    why.append("wire %s crashed (exit %s): %s at %s" % (cmd, c, (m.group(1) if m else "?")[:120], site.group(1) if site else "?"))
                elif c != 0:
                    if not re.search(r"(?m)^wire: \S*%s/\S+\.go:\d+:\d+: " % p, e):
                        why.append("wire %s failed (exit %d) without a diagnostic positioned in the user's sources: %s" % (cmd, c, e.strip()[-300:]))
                    if not e.strip():
                        why.append("wire %s exited %d silently" % (cmd, c))
            stats["accepted" if rc == 0 else "rejected"] += 1
            rep.nontrivial.add(label)
            if len(rep.coverage["samples"]) < 5:
                rep.sample({"spelling": label, "source": body[:200], "gen_exit": rc, "stderr": err.strip()[:200]})
            if why:
                fails.append({"stream": "c20", "spelling": label, "why": why, "source": body, "stderr": (err + err2 + err3)[-1500:]})
    finally:
        ws.close()
    rep.coverage["c20"] = stats
    return [], fails
