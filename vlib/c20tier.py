"""C20: unusual but type-correct spellings of the Wire marker-function arguments and unusual injector
result types.  One package per spelling, so that a crash is attributable."""
import os
import re
import shutil

from .cmdtier import Workspace, panicked, MOD
from .common import GOENV, run, log

PRELUDE = '''package {pkg}

import (
	"errors"
	"unsafe"

	"github.com/google/wire"
	"example.com/c/zsets"
)

// DV is defined in terms of another package's struct, DA is an alias of it: the unexported field belongs to zsets
type DV zsets.Hidden

type DA = zsets.Hidden

type T struct {{
	X int
	Y string
}}

type PT = *T

type I interface{{ M() }}

func (T) M() {{}}

type G[A any] struct{{ V A }}

type F func() int

type D struct {{
	A, B string
	C    int
}}

type BL struct {{
	_ struct{{}}
	X int
	_ int
}}

type E struct {{
	T
	N int64
}}

type BL2 struct {{
	_ string
	X int
}}

type PS = wire.ProviderSet

type holder struct{{ S wire.ProviderSet }}

var (
	_ = errors.New
	_ unsafe.Pointer
)

func NewT() T {{ return T{{}} }}
func NewPT() *T {{ return &T{{}} }}
func NewInt() int {{ return 1 }}
func NewStr() string {{ return "s" }}
func NewIntErr() (int, error) {{ return 1, nil }}
func two() (int, int) {{ return 1, 2 }}
func fn() int {{ return 1 }}
func GenericNew[A any]() A {{ var a A; return a }}

var ptrVar = &T{{}}
var ch = make(chan int, 1)
var fvar F = fn
var ifaceVal I = T{{}}

const fieldName = "X"

var fieldVar = "X"

var fieldNames = []string{{"X"}}

func fieldFn() string {{ return "X" }}
'''

HDR = '''//go:build wireinject
// +build wireinject

package {pkg}

import (
{imports}
)

var _ = unsafe.Sizeof(0)
'''


def inj(name, result, build, ret=None, extra=""):
    if ret is None:
        return "func %s() %s {\n\tpanic(%s)\n}\n%s" % (name, result, build, extra)
    return "func %s() %s {\n\t%s\n\treturn %s\n}\n%s" % (name, result, build, ret, extra)


def spellings():
    """-> list of (label, wire-import-form, body of the injector file after the header)"""
    W = "wire"
    out = []

    def add(label, body, imp="plain"):
        out.append((label, imp, body))
    # --- wire.Struct first argument / field names
    for k, first in enumerate(["new(T)", "&T{}", "ptrVar", "new(G[int])", "new(struct{ X int })", "(*T)(nil)", "new(*T)", "new(I)", "nil",
                               "0", '"str"', "T{}", "NewPT()", "new(PT)", "new(F)", "new([2]T)"]):
        for j, fields in enumerate(['"*"', '"X"', "`X`", "fieldName", '"X" + ""', '"X", "Y"', '"*", "X"', "", '"Z"', '"x"', "`*`", '"\\x2a"', '("*")', "fieldVar", "fieldFn()", "fieldNames[0]", "fieldNames...", '("X")', "string(fieldVar)"]):
            if k > 2 and j > 1:
                continue
            args = first + (", " + fields if fields else "")
            res = "G[int]" if "G[int]" in first else ("struct{ X int }" if "struct{" in first else "T")
            add("struct/%d/%d" % (k, j), inj("Init", res, "%s.Build(%s.Struct(%s), NewInt, NewStr)" % (W, W, args)))
    # --- struct shapes: same-typed fields, blank fields, embedded fields
    for k, (ty, fields) in enumerate([("D", '"*"'), ("D", '"A", "B"'), ("D", '"A", "C"'), ("D", '"A", "A"'), ("D", '"C", "B", "A"'),
                                      ("BL", '"*"'), ("BL", '"_"'), ("BL", '"X"'), ("BL", '"X", "_"'), ("BL2", '"*"'), ("BL2", '"_", "X"'), ("DV", '"*"'), ("DV", '"A"'), ("DV", '"A", "b"'), ("DA", '"*"'), ("DA", '"A"'), ("DA", '"b"'),
                                      ("E", '"*"'), ("E", '"T"'), ("E", '"N"'), ("E", '"X"'), ("E", '"T", "N"')]):
        add("shape-struct/%d" % k, inj("Init", ty, "wire.Build(wire.Struct(new(%s), %s), NewInt, NewStr, NewT, wire.Value(int64(1)), "
                                                   "wire.Value(struct{}{}))" % (ty, fields)))
        add("shape-structptr/%d" % k, inj("Init", "*" + ty, "wire.Build(wire.Struct(new(%s), %s), NewInt, NewStr, NewT, wire.Value(int64(1)), "
                                                            "wire.Value(struct{}{}))" % (ty, fields)))
    # struct types defined from (or aliasing) another package's struct: exactly the providers the named fields need
    for k, (ty, fields, provs) in enumerate([("DV", '"*"', "NewInt, NewStr"), ("DA", '"*"', "NewInt, NewStr"), ("DV", '"A", "b"', "NewInt, NewStr"),
                                             ("DA", '"b", "A"', "NewInt, NewStr"), ("DV", '"A"', "NewInt"), ("DA", '"A"', "NewInt"), ("DV", '"b"', "NewStr")]):
        add("shape-foreignstruct/%d" % k, inj("Init", ty, "wire.Build(wire.Struct(new(%s), %s), %s)" % (ty, fields, provs)))
        add("shape-foreignstructptr/%d" % k, inj("Init", "*" + ty, "wire.Build(wire.Struct(new(%s), %s), %s)" % (ty, fields, provs)))
    for k, (ty, fields, res) in enumerate([("D", '"A"', "string"), ("D", '"A", "B"', "string"), ("D", '"C"', "int"), ("BL", '"_"', "int"),
                                           ("BL", '"X"', "int"), ("E", '"T"', "T"), ("E", '"N"', "int64"), ("E", '"X"', "int"), ("E", '"*"', "int64")]):
        add("shape-fieldsof/%d" % k, "func mk%s() %s { var z %s; return z }\n\n" % (ty, ty, ty)
            + inj("Init", res, "wire.Build(mk%s, wire.FieldsOf(new(%s), %s))" % (ty, ty, fields)))
    # --- package-level variables of type wire.ProviderSet with unusual values, unused and used
    for k, init in enumerate(["wire.ProviderSet{}", "PS{}", "*new(wire.ProviderSet)", "mkSet()", "wire.ProviderSet(Base)", "(wire.NewSet(NewInt))",
                              "func() wire.ProviderSet { return wire.NewSet(NewInt) }()", "[]wire.ProviderSet{wire.NewSet(NewInt)}[0]",
                              "map[int]wire.ProviderSet{}[0]", "holder{}.S", "(Base)", "*&Base", "PS(wire.NewSet(NewInt))"]):
        decl = "func mkSet() wire.ProviderSet { return wire.NewSet(NewInt) }\n\nvar Base = wire.NewSet(NewInt)\n\nvar Odd = %s\n\n" % init
        add("setvar/unused/%d" % k, decl + inj("Init", "int", "wire.Build(NewInt)"))
        add("setvar/used/%d" % k, decl + inj("Init", "int", "wire.Build(Odd)"))
        add("setvar/nested/%d" % k, decl + "var Outer = wire.NewSet(Odd)\n\n" + inj("Init", "int", "wire.Build(Outer)"))
    add("setvar/typed-novalue", "var Odd PS\n\n" + inj("Init", "int", "wire.Build(NewInt)"))
    add("setvar/alias-type-only", "type PS2 = wire.ProviderSet\n\n" + inj("Init", "int", "wire.Build(NewInt)"))
    add("setvar/defined-type", "type MySet wire.ProviderSet\n\nvar Odd = MySet(wire.NewSet(NewInt))\n\n" + inj("Init", "int", "wire.Build(NewInt)"))
    add("setvar/pointer", "var Base = wire.NewSet(NewInt)\n\nvar Odd = &Base\n\n" + inj("Init", "int", "wire.Build(NewInt)"))
    add("setvar/const-like", "var Odd, Even = wire.NewSet(NewInt), wire.ProviderSet{}\n\n" + inj("Init", "int", "wire.Build(Odd)"))
    # --- wire.FieldsOf
    for k, first in enumerate(["new(T)", "new(*T)", "new(*int)", "new(int)", "&T{}", "new(**T)", "nil", "ptrVar", "new(PT)", "new(G[int])",
                               "new(*G[int])", "new(struct{ X int })", "new(I)"]):
        for j, fields in enumerate(['"X"', "fieldName", '"X", "Y"', '"V"', "`X`", "", "fieldVar", "fieldNames...", "fieldFn()"]):
            if k > 1 and j > 1 and not (j == 3 and "G[" in first):
                continue
            args = first + (", " + fields if fields else "")
            add("fieldsof/%d/%d" % (k, j), inj("Init", "int", "%s.Build(NewT, NewPT, %s.FieldsOf(%s))" % (W, W, args)))
    # --- wire.Bind, under three import forms
    for k, (a, b) in enumerate([("new(I)", "new(T)"), ("new(I)", "new(*T)"), ("nil", "nil"), ("new(T)", "new(T)"), ("(*I)(nil)", "(*T)(nil)"),
                                ("new(I)", "ptrVar"), ("new(I)", "T{}"), ("new(I)", "new(I)"), ("new(error)", "new(T)"), ("new(interface{})", "new(T)"),
                                ("new(any)", "new(int)")]):
        for imp in ("plain", "renamed", "dot"):
            w = {"plain": "wire.", "renamed": "w.", "dot": ""}[imp]
            add("bind/%d/%s" % (k, imp), inj("Init", "I", "%sBuild(NewT, NewPT, %sBind(%s, %s))" % (w, w, a, b)), imp)
    # --- wire.Value / InterfaceValue
    for k, e in enumerate(["nil", "42", '"s"', "T{}", "&T{}", "struct{}{}", "[]int{1}", "map[string]int{}", "<-ch", "fn()", "fvar()", "T.M", "fn",
                           "ifaceVal", "(*T)(nil)", "[2]int{}", "func() int { return 1 }", "unsafe.Pointer(nil)", "F(nil)", "ptrVar.X", "*ptrVar",
                           "ptrVar", "len(\"abc\")", "G[int]{}", "GenericNew[int]", "1 + 2", "-1", "!true", "fieldName", "errors.New"]):
        add("value/%d" % k, inj("Init", "T", "wire.Build(NewT, wire.Value(%s))" % e))
    for k, (a, b) in enumerate([("new(I)", "T{}"), ("new(T)", "T{}"), ("nil", "T{}"), ("(*I)(nil)", "T{}"), ("new(I)", "ifaceVal"),
                                ("new(error)", 'errors.New("x")'), ("new(I)", "nil"), ("new(any)", "1"), ("new(I)", "fn()"), ("new(any)", "nil"),
                                ("new(interface{})", "nil"), ("new(any)", "(*T)(nil)"), ("new(error)", "nil")]):
        add("ivalue/%d" % k, inj("Init", "I", "wire.Build(wire.InterfaceValue(%s, %s))" % (a, b)))
    for k, (a, b) in enumerate([("new(any)", "nil"), ("new(interface{})", "nil"), ("new(any)", "(*T)(nil)"), ("new(any)", "T{}"), ("new(any)", "1"),
                                ("new(any)", "ifaceVal"), ("new(any)", "fvar")]):
        add("ivalue-any/%d" % k, inj("Init", "any", "wire.Build(wire.InterfaceValue(%s, %s))" % (a, b)))
    # --- arguments of wire.Build / NewSet
    for k, e in enumerate(["nil", "true", "42", '"s"', "fvar", "T{}.M", "func() int { return 1 }", "GenericNew[int]", "T{}", "&T{}", "len", "print",
                           "fieldName", "ptrVar", "ch", "ifaceVal", "wire.NewSet", "wire.Build", "(NewInt)", "((NewInt))", "wire.NewSet()",
                           "wire.NewSet(wire.NewSet(NewInt))", "errors.New", "unsafe.Sizeof", "two", "struct{}{}", "G[int]{}", "new(T)", "NewInt()",
                           "[]int{}", "SetA", "SetB", "SetC", "AliasSet", "int(1)", "error(nil)", "make([]int, 1)", "string(rune(65))",
                           "append([]int{}, 1)", "complex(1, 2)", "(new)(T)", "unsafe.Pointer(nil)"]):
        extra = "\nvar SetA, SetB = wire.NewSet(NewInt), wire.NewSet()\n\nvar SetC = SetA\n\nvar AliasSet wire.ProviderSet\n"
        add("build/%d" % k, inj("Init", "int", "wire.Build(NewInt, %s)" % e, extra=extra if "Set" in e else ""))
        if k < 12:
            add("newset/%d" % k, "var S = wire.NewSet(NewInt, %s)\n\n" % e + inj("Init", "int", "wire.Build(S)"))
    for k, e in enumerate(["os.Args", "io.EOF", "os.Stdout", "zshared.Default", "zshared.Number", "zshared.Fn", "io.Discard", "os.ErrNotExist"]):
        res = "int"
        add("foreignvar/%d" % k, inj("Init", res, "wire.Build(%s)" % (e if e == "zshared.Default" else "NewInt, " + e)))
        add("foreignvar-set/%d" % k, "var S = wire.NewSet(%s)\n\n" % e + inj("Init", res, "wire.Build(S%s)" % ("" if e == "zshared.Default" else ", NewInt")))
    # deprecated struct-literal providers, also for structs with blank and same-typed fields
    for k, (lit, res, provs) in enumerate([("T{}", "T", "NewInt, NewStr"), ("T{}", "*T", "NewInt, NewStr"), ("BL{}", "BL", "NewInt"), ("BL{}", "*BL", "NewInt, wire.Value(struct{}{})"),
                                           ("D{}", "D", "NewInt, NewStr"), ("E{}", "E", "NewT, wire.Value(int64(1))"), ("&T{}", "*T", "NewInt, NewStr"),
                                           ("G[int]{}", "G[int]", "NewInt"), ("BL2{}", "BL2", "NewInt, NewStr"), ("BL2{}", "*BL2", "NewInt, NewStr"),
                                           ("BL2{}", "BL2", "NewInt")]):
        add("structlit/%d" % k, inj("Init", res, "wire.Build(%s, %s)" % (lit, provs)))
    # a parameter named like a package-level provider, with and without another injector that uses the provider
    add("paramshadow/alone", "func Init(NewInt func() int) int {\n\tpanic(wire.Build(NewInt))\n}\n")
    add("paramshadow/after", inj("First", "int", "wire.Build(NewInt)") + "\nfunc Init(NewInt func() int) string {\n\tpanic(wire.Build(NewInt, NewStr))\n}\n")
    add("paramshadow/set", "var S = wire.NewSet(NewInt)\n\n" + inj("First", "int", "wire.Build(S)") + "\nfunc Init(S int) string {\n\tpanic(wire.Build(S, NewStr))\n}\n")
    add("paramshadow/local-value", "func Init(n int) *int {\n\tpanic(wire.Build(wire.Value(&n)))\n}\n")
    # functions of packages outside the user's module as items: a bad signature is reported where the function is declared
    for k, e in enumerate(["os.Exit", "errors.Is", "os.Getenv", "errors.New", "io.ReadAll"]):
        add("foreignfunc/%d" % k, inj("Init", "string", "wire.Build(NewStr, %s)" % e))
    # struct types of packages outside the user's module with several fields of one type (D39)
    for k, item in enumerate(['wire.Struct(new(os.LinkError), "*")', 'wire.Struct(new(os.LinkError), "Op", "Old")', "os.LinkError{}",
                              'wire.Struct(new(os.LinkError), "Op", "Err")']):
        add("foreigndup/%d" % k, inj("Init", "os.LinkError", "wire.Build(NewStr, %s)" % item))
    # wire.InterfaceValue accepts function literals: identifiers without an object (blank, type-switch variable) inside them (D43)
    add("ivalue-funclit/blank", inj("Init", "I", "wire.Build(wire.InterfaceValue(new(I), func() I { _ = 1; return nil }()))"))
    add("ivalue-funclit/typeswitch", inj("Init", "I", "wire.Build(wire.InterfaceValue(new(I), func() I { var x interface{} = 1; "
                                                     "switch y := x.(type) { case I: return y }; return nil }()))"))
    add("ivalue-funclit/blank-param", inj("Init", "I", "wire.Build(wire.InterfaceValue(new(I), func(_ int) I { for _, _ = range []int{1} {}; return nil }(0)))"))
    # an exported alias of an unexported type of another package in the injector's signature (D41)
    add("aliashidden/result", inj("Init", "(zsets.Shown, error)", "wire.Build(zsets.NewShown)"))
    add("aliashidden/param", "func Init(x []zsets.Shown) int {\n\tpanic(wire.Build(NewInt))\n}\n")
    add("sets/multi", "func twoSets() (wire.ProviderSet, wire.ProviderSet) { return wire.NewSet(), wire.NewSet() }\n\n"
                      "var A, B = twoSets()\n\n" + inj("Init", "int", "wire.Build(NewInt)"))
    add("sets/multi-used", "func twoSets() (wire.ProviderSet, wire.ProviderSet) { return wire.NewSet(NewInt), wire.NewSet() }\n\n"
                           "var A, B = twoSets()\n\n" + inj("Init", "int", "wire.Build(A)"))
    add("sets/novalue", "var Empty wire.ProviderSet\n\n" + inj("Init", "int", "wire.Build(NewInt, Empty)"))
    add("sets/local", "func Init() int {\n\tpanic(wire.Build(NewInt))\n}\n\nfunc other() { s := wire.NewSet(NewInt); _ = s }\n")
    # --- injector result types (an error-returning provider forces the zero value to be emitted)
    kinds = ["int", "string", "bool", "float64", "complex128", "unsafe.Pointer", "uintptr", "[3]int", "[]int", "map[string]int", "chan int",
             "func()", "func(int) string", "*T", "T", "struct{ X int }", "interface{}", "error", "I", "G[int]", "*G[int]", "PT", "F", "any",
             "[0]T", "<-chan T", "rune", "byte"]
    for k, t in enumerate(kinds):
        body = ("type N%d %s\n\nfunc MkN() (N%d, error) { var z N%d; return z, nil }\n\nfunc MkU() (%s, error) { var z %s; return z, nil }\n\n"
                % (k, t, k, k, t, t))
        add("result/named/%d" % k, body + inj("Init", "(N%d, error)" % k, "wire.Build(MkN)"))
        add("result/unnamed/%d" % k, body + inj("Init", "(%s, error)" % t, "wire.Build(MkU)"))
    # --- injector shapes
    add("shape/extra-stmt", "func Init() int {\n\tx := 1\n\t_ = x\n\twire.Build(NewInt)\n\treturn 0\n}\n")
    add("shape/two-builds", "func Init() int {\n\twire.Build(NewInt)\n\twire.Build(NewInt)\n\treturn 0\n}\n")
    add("shape/method", "func (T) Init() int {\n\tpanic(wire.Build(NewInt))\n}\n")
    add("shape/generic", "func Init[A any]() int {\n\tpanic(wire.Build(NewInt))\n}\n")
    add("shape/generic-used", "func Init[A any](a A, as []A) int {\n\tpanic(wire.Build(NewInt))\n}\n")
    add("shape/method-ptr", "func (t *T) Init() int {\n\tpanic(wire.Build(NewInt))\n}\n")
    add("shape/named-results", "func Init() (n int, err error) {\n\tpanic(wire.Build(NewIntErr))\n}\n")
    add("shape/variadic", "func Init(xs ...string) int {\n\tpanic(wire.Build(NewInt))\n}\n")
    add("shape/no-result", "func Init() {\n\tpanic(wire.Build(NewInt))\n}\n")
    add("shape/build-in-expr", "func Init() int {\n\t_ = wire.Build(NewInt)\n\treturn 0\n}\n")
    add("shape/build-arg-call", "func Init() int {\n\tpanic(wire.Build(wire.NewSet(NewInt)))\n}\n")
    add("shape/blank-param", "func Init(_ string, _ bool) int {\n\tpanic(wire.Build(NewInt))\n}\n")
    return out


HELPERS = {
    "zsets/zsets.go": "package zsets\n\nimport \"github.com/google/wire\"\n\nfunc NewInt() int { return 3 }\n\nvar Default = wire.NewSet(NewInt)\n\nvar Plain = 7\n\ntype Hidden struct {\n\tA int\n\tb string\n}\n\ntype hiddenT struct{ N int }\n\ntype Shown = hiddenT\n\nfunc NewShown() (Shown, error) { return hiddenT{N: 1}, nil }\n\nfunc (h Hidden) B() string { return h.b }\n",
    # re-exports a provider set and does not import wire itself
    "zshared/zshared.go": "package zshared\n\nimport \"%s/zsets\"\n\nvar Default = zsets.Default\n\nvar Number = zsets.Plain\n\nvar Fn = zsets.NewInt\n" % MOD,
}


def materialise(ws, idx, label, imp, body):
    pkg = "q%d" % idx
    d = ws.root + "/" + pkg
    os.makedirs(d, exist_ok=True)
    open(d + "/a.go", "w").write(PRELUDE.format(pkg=pkg))
    imports = {"plain": '\t"github.com/google/wire"', "renamed": '\tw "github.com/google/wire"', "dot": '\t. "github.com/google/wire"'}[imp]
    imports += '\n\t"errors"\n\t"unsafe"'
    for extra in ("os", "io"):
        if re.search(r"\b%s\." % extra, body):
            imports += '\n\t"%s"' % extra
    if "zsets." in body:
        imports += '\n\t"%s/zsets"' % MOD
    if "zshared." in body:
        imports += '\n\t"%s/zshared"' % MOD
    src = HDR.format(pkg=pkg, imports=imports) + "\nvar _ = errors.New\n\n" + body
    open(d + "/wire.go", "w").write(src)
    # what the ordinary build must still find once the template is replaced by generated code
    m = re.search(r"(?m)^func \((\w+ )?\*?(\w+)\) (\w+)\(", body)
    if label.startswith("shape/method") and m:
        open(d + "/assert.go", "w").write("package %s\n\nvar _ = (*%s).%s\n" % (pkg, m.group(2), m.group(3)))
    return pkg


def run_c20(rep, tier, known, select=None, cmds=("gen", "check", "show"), build=False):
    """select: label prefixes to keep (None = all); build: compile the packages wire accepted (without the tag) and
    report a package that does not compile (that is property C01's business: the caller says which property)"""
    ws = Workspace()
    fails = []
    stats = {"spellings": 0, "type_correct": 0, "accepted": 0, "rejected": 0, "panics": 0}
    try:
        cases = [c for c in spellings() if select is None or c[0].startswith(tuple(select))]
        for rel, src in HELPERS.items():
            os.makedirs(os.path.dirname(ws.root + "/" + rel), exist_ok=True)
            open(ws.root + "/" + rel, "w").write(src)
        pkgs = []
        for i, (label, imp, body) in enumerate(cases):
            pkgs.append((materialise(ws, i, label, imp, body), label, body))
        stats["spellings"] = len(pkgs)
        # keep the type-correct ones
        rc, out, err = run(["go", "vet", "-tags", "wireinject", "./..."], cwd=ws.root, env=dict(GOENV), timeout=600)
        badpk = set(re.findall(r"(?m)^# %s/(q\d+)" % re.escape(MOD), out + err))
        badpk |= set(re.findall(r"(?m)^(?:\./)?(q\d+)/[\w.]+\.go:\d+", out + err))
        good = [(p, l, b) for p, l, b in pkgs if p not in badpk]
        for p, _, _ in pkgs:
            if p in badpk:
                shutil.rmtree(ws.root + "/" + p)
        stats["type_correct"] = len(good)
        skip = [(0, "", "")] * len(good)
        gens = ws.wire_many([["gen", "./" + p] for p, _, _ in good], timeout=60)
        checks = ws.wire_many([["check", "./" + p] for p, _, _ in good], timeout=60) if "check" in cmds else skip
        shows = ws.wire_many([["show", "./" + p] for p, _, _ in good], timeout=60) if "show" in cmds else skip
        for (p, label, body), (rc, out, err), (rc2, out2, err2), (rc3, out3, err3) in zip(good, gens, checks, shows):
            rep.evaluations += 1
            why = []
            for cmd, c, e in (("gen", rc, err), ("check", rc2, err2), ("show", rc3, err3)):
                if panicked(e) or c not in (0, 1):
                    stats["panics"] += 1
                    site = re.search(r"(internal/wire/\w+\.go:\d+|cmd/wire/\w+\.go:\d+)", e)
                    m = re.search(r"panic: (.*)", e)
                    why.append("wire %s crashed (exit %s): %s at %s" % (cmd, c, (m.group(1) if m else "?")[:120], site.group(1) if site else "?"))
                elif c != 0:
                    # a position in the package itself or in another package of the user's module
                    if not re.search(r"(?m)^wire: %s/\S+\.go:\d+:\d+: " % re.escape(ws.root), e):
                        why.append("wire %s failed (exit %d) without a diagnostic positioned in the user's sources: %s" % (cmd, c, e.strip()[-300:]))
                    if not e.strip():
                        why.append("wire %s exited %d silently" % (cmd, c))
            stats["accepted" if rc == 0 else "rejected"] += 1
            rep.nontrivial.add(label)
            if len(rep.coverage["samples"]) < 5:
                rep.sample({"spelling": label, "source": body[:200], "gen_exit": rc, "stderr": err.strip()[:200]})
            if why:
                fails.append({"stream": "c20", "spelling": label, "why": why, "source": body, "stderr": (err + err2 + err3)[-1500:]})
        if build:
            acc = [(p, label, body) for (p, label, body), (rc, out, err) in zip(good, gens) if rc == 0]
            for p, _, _ in good:
                if p not in {a[0] for a in acc}:
                    shutil.rmtree(ws.root + "/" + p, ignore_errors=True)
            rcb, outb, errb = run(["go", "build", "./..."], cwd=ws.root, env=dict(GOENV), timeout=600)
            stats["compiled"] = len(acc)
            if rcb != 0:
                for p, label, body in acc:
                    msgs = re.findall(r"(?m)^(?:\./)?%s/[\w.]+\.go:\d+:\d+: .*$" % p, outb + errb)
                    if msgs:
                        gen_src = open(ws.root + "/" + p + "/wire_gen.go").read() if os.path.exists(ws.root + "/" + p + "/wire_gen.go") else ""
                        fails.append({"stream": "c20-build", "spelling": label, "source": body, "wire_gen.go": gen_src[:2500],
                                      "why": ["wire gen succeeded on the spelling %s but the package does not compile: %s" % (label, msgs[0][:300])]})
    finally:
        ws.close()
    rep.coverage["c20"] = stats
    return [], fails


def run_paramshadow(rep, tier):
    """C14: what an identifier in wire.Build denotes is decided by Go's scoping, not by its spelling: an injector whose
    parameter shadows a package-level provider / set must get the same verdict whether or not another injector of the
    package mentions that provider / set."""
    ws = Workspace()
    fails = []
    try:
        variants = {
            "prov": ("NewInt func() int", "int", "NewInt", inj("First", "int", "wire.Build(NewInt)")),
            "set": ("S bool", "int", "S", "var S = wire.NewSet(NewInt)\n\n" + inj("First", "int", "wire.Build(S)")),
            "setlater": ("S bool", "int", "S", "var S = wire.NewSet(NewInt)\n\n"),
            "value": ("V bool", "string", "V", "var V = wire.Value(\"v\")\n\n" + inj("First", "string", "wire.Build(V)")),
        }
        pk = []
        for name, (param, res, args, before) in variants.items():
            for mode in ("alone", "after", "before"):
                me = "func Init(%s) %s {\n\tpanic(wire.Build(%s))\n}\n" % (param, res, args)
                first = before if mode != "alone" else "\n".join(l for l in before.split("\n\n")[0:1] if l.startswith("var")) + "\n\n"
                body = (first + me) if mode != "before" else (me + "\n" + before)
                if mode == "alone":
                    body = (before.split("\n\n")[0] + "\n\n" if before.startswith("var") else "") + me
                pk.append((materialise(ws, len(pk), "ps/%s/%s" % (name, mode), "plain", body), name, mode, body))
        rc, out, err = run(["go", "vet", "-tags", "wireinject", "./..."], cwd=ws.root, env=dict(GOENV), timeout=300)
        bad = set(re.findall(r"(?m)^# %s/(q\d+)" % re.escape(MOD), out + err))
        res = ws.wire_many([["gen", "./" + p] for p, _, _, _ in pk], timeout=60)
        verdict = {}
        for (p, name, mode, body), (rc, out, err) in zip(pk, res):
            if p in bad:
                continue
            rep.evaluations += 1
            rep.nontrivial.add("paramshadow/%s/%s" % (name, mode))
            ok_init = rc == 0
            if panicked(err):
                fails.append({"stream": "c14-paramshadow", "why": ["wire panicked: " + err[-300:]], "source": body})
                continue
            verdict[(name, mode)] = (ok_init, err.strip()[-300:], body)
        for name in variants:
            base = verdict.get((name, "alone"))
            for mode in ("after", "before"):
                v = verdict.get((name, mode))
                if base and v and base[0] != v[0]:
                    fails.append({"stream": "c14-paramshadow", "source": v[2], "stderr": v[1],
                                  "why": ["an injector whose parameter shadows the package-level %s of the same name is %s when another "
                                          "injector of the package (%s it) mentions that name, but %s on its own: the parameter was taken for "
                                          "the package-level object" % (name, "accepted" if v[0] else "rejected", mode, "accepted" if base[0] else "rejected")]})
            if base and base[0]:
                fails.append({"stream": "c14-paramshadow", "source": base[2], "why": ["a parameter passed to wire.Build was accepted as a provider"]})
    finally:
        ws.close()
    return [], fails
