"""C19: `wire check` agrees with `wire gen`; `wire show` groups outputs by required inputs."""
import os
import re

from . import e2e_gen as G, e2e_run as R, e2e_check as C, e2e_eval as EV
from .common import WIRE, GOENV, run, scratch, rmtree, seed

KINDS = ["none", "none", "missing", "dup", "unused", "neederr", "needcleanup", "badset", "aliasbad", "aliasgood", "unexported", "unexported"]


def expected_show(u, prog, s_idx):
    """{frozenset(input type strings): set(output type strings)} for set s_idx of unit u"""
    # flatten the closure
    src = {}
    seen = set()

    def walk(k):
        if k in seen:
            return
        seen.add(k)
        s = u.sets[k]
        for n in s["items"]:
            it = u.items[n]
            for t in it["outs"]:
                src[t] = it
        for i in s["imports"]:
            walk(i)
    walk(s_idx)
    memo = {}

    def inputs(t, stack=()):
        if t in memo:
            return memo[t]
        if t not in src:
            return frozenset([t])
        if t in stack:
            return frozenset()
        it = src[t]
        out = set()
        for d in it["deps"]:
            out |= inputs(d, stack + (t,))
        memo[t] = frozenset(out)
        return memo[t]
    groups = {}
    for t in src:
        key = frozenset(G.type_string(u, x) for x in inputs(t))
        groups.setdefault(key, set()).add(G.type_string(u, t))
    return groups


def parse_show(out):
    """-> {set id string: {'imports': [...], 'groups': {frozenset(inputs): set(outputs)}}}, injectors"""
    sets, cur, grp, injectors = {}, None, None, []
    in_inj = False
    for line in out.split("\n"):
        if not line.strip():
            continue
        if line.startswith("Injectors:"):
            in_inj = True
            continue
        if in_inj:
            injectors.append(line.strip())
            continue
        if not line.startswith("\t"):
            cur = {"imports": [], "groups": {}}
            sets[line.strip()] = cur
            grp = None
        elif line.startswith("\tOutputs given "):
            names = line[len("\tOutputs given "):].rstrip(":")
            listed = [] if names == "no inputs" else [x.strip() for x in names.split(", ")]
            key = frozenset(listed)
            if len(listed) != len(key):
                cur.setdefault("problems", []).append("a group heading names a type twice: " + line.strip())
            if key in cur["groups"]:
                cur.setdefault("problems", []).append("two groups with the same set of inputs: " + line.strip())
            grp = cur["groups"].setdefault(key, set())
        elif line.startswith("\t\t\t"):
            continue
        elif line.startswith("\t\t"):
            if grp is not None:
                grp.add(line.strip())
        elif line.startswith("\t"):
            cur["imports"].append(line.strip())
    return sets, injectors


def run_c19(rep, tier):
    import random
    rng = random.Random(seed() * 19 + 7)
    n = 40 if tier == "quick" else 400
    progs = EV.gen_batch(n, {"units": [1, 2]}, "c19")
    # programs whose providers live in the library packages, reached through those packages' own sets: there an unexported
    # provider function is a defect that has nothing to do with the injector's signature
    libheavy = EV.gen_batch(max(8, n // 3), {"units": [1, 2], "p_lib_structs": 0.9, "p_func": 0.85, "min_structs": 5, "max_structs": 9}, "c19u")
    progs += libheavy
    fails, dis = [], []
    stats = {"programs": 0, "check_ok": 0, "check_fail": 0, "sets_shown": 0}
    root = scratch("wvc19")
    try:
        plan = []
        # an outside input of composite type (*S as an injector argument) needed by several providers: `show` must still list it once
        r4 = random.Random(seed() * 977 + 19)
        for p in progs:
            for u in p.units:
                if getattr(u, "shadow", False) or r4.random() < 0.5:
                    continue
                args_ = [it["outs"][0] for it in u.items if it["kind"] == "arg" and it["outs"][0][0] == "p"]
                funcs_ = [it for it in u.items if it["kind"] == "func" and not it.get("variadic")]
                if args_ and len(funcs_) >= 2:
                    t = r4.choice(args_)
                    for it in r4.sample(funcs_, 2):
                        if t not in it["deps"] and t not in it["outs"] and ("v", t[1]) not in it["outs"]:
                            it["deps"] = list(it["deps"]) + [t]
        for p in progs:
            kind = rng.choice(KINDS) if p not in libheavy else "unexported"
            p.c19 = kind
            if kind == "badset":
                p.extra_decls.append("var ExtraBadSet = wire.NewSet(wire.Value(1), wire.Value(2))")
            elif kind in ("aliasbad", "aliasgood"):
                # a package that declares a provider-set variable as an alias of another package's set and
                # does not itself import wire
                p.extra_decls.append("var AliasedBad = wire.NewSet(wire.Value(1), wire.Value(2))" if kind == "aliasbad"
                                     else "var AliasedGood = wire.NewSet(wire.Value(1), wire.Value(\"s\"))")
                p.alias_pkg = ("package al\n\nimport \"%s\"\n\nvar Set = %s.%s\n" % (
                    p.path("app"), p.qual("app") if False else p.pkgmap["app"]["name"], "AliasedBad" if kind == "aliasbad" else "AliasedGood"))
            elif kind != "none":
                note = G.plant(rng, p.units[0], kind)
                if not note:
                    p.c19 = "none"
            if kind not in ("neederr", "needcleanup") and rng.random() < 0.5:
                # the full injector form (T, func(), error): every provider signature fits it, every other rejection still applies
                for u in p.units:
                    u.inj["cleanup"] = u.inj["err"] = True
        R.build_tools()
        extra = {"%s/al/al.go" % p.name: p.alias_pkg for p in progs if getattr(p, "alias_pkg", None)}
        R.write_module(root, progs, extra)
        from concurrent.futures import ThreadPoolExecutor

        def one(p):
            pat = "./%s/..." % p.name
            g = run([WIRE, "gen", pat], cwd=root, env=dict(GOENV), timeout=120)
            c = run([WIRE, "check", pat], cwd=root, env=dict(GOENV), timeout=120)
            s = run([WIRE, "show", pat], cwd=root, env=dict(GOENV), timeout=120)
            a = None
            if getattr(p, "alias_pkg", None):
                a = (run([WIRE, "check", "./%s/al" % p.name], cwd=root, env=dict(GOENV), timeout=120),
                     run([WIRE, "show", "./%s/al" % p.name], cwd=root, env=dict(GOENV), timeout=120))
            return g, c, s, a
        with ThreadPoolExecutor(max_workers=12) as ex:
            results = list(ex.map(one, progs))
        for p, (g, c, s, al) in zip(progs, results):
            stats["programs"] += 1
            rep.evaluations += 1
            grc, gout, gerr = g
            crc, cout, cerr = c
            src_, sout, serr = s
            stats["check_ok" if crc == 0 else "check_fail"] += 1
            rep.nontrivial.add(p.name + p.c19)
            why = []
            for nm, e in (("gen", gerr), ("check", cerr), ("show", serr)):
                if "panic:" in e or "goroutine " in e:
                    why.append("wire %s panicked: %s" % (nm, e[-300:]))
            want_check_ok = (grc == 0) and p.c19 not in ("badset", "aliasbad")
            if al is not None:
                (arc, _, aerr), (src2, sout2, _) = al
                if (arc == 0) != (p.c19 == "aliasgood"):
                    why.append("check on the package that only aliases %s provider set exits %d" % (
                        "an ill-formed" if p.c19 == "aliasbad" else "a well-formed", arc))
                if p.c19 == "aliasgood" and ('/al".Set' not in sout2):
                    why.append("show does not list the aliased provider set of package al: %r" % sout2[:200])
            if (crc == 0) != want_check_ok:
                why.append("check exit %d but gen exit %d (planted: %s): check must succeed exactly when every injector generates and every "
                           "top-level set is well-formed" % (crc, grc, p.c19))
            # same classes of errors
            if grc != 0 and crc != 0:
                ix = C.UnitIndex(p, p.units[0])
                def classes(err):
                    res, _ = R.parse_wire_stderr(err.replace("error loading packages", "x: generate failed"))
                    msgs = []
                    cur = None
                    for line in err.split("\n"):
                        if line.startswith("wire: ") and not re.search(r"generate failed|error loading packages|at least one", line):
                            cur = line[6:]
                            msgs.append(cur)
                        elif line.startswith("\t") and msgs:
                            msgs[-1] += "\n" + line[1:]
                    return sorted(set(C.classify(ix, m).split(":")[0] for m in msgs))
                gc, cc = classes(gerr), classes(cerr)
                if gc != cc:
                    why.append("gen reports error classes %s, check reports %s" % (gc, cc))
            # show
            if crc == 0 and src_ == 0:
                shown, injectors = parse_show(sout)
                for sid_, sh_ in shown.items():
                    for pr_ in sh_.get("problems", [])[:2]:
                        why.append("show output for %s: %s" % (sid_, pr_))
                for u in p.units:
                    inj = '"%s".%s' % (p.path(u.inj["pkg"]), u.inj["name"])
                    if inj not in injectors:
                        why.append("show does not list injector %s" % inj)
                    for k, st in enumerate(u.sets):
                        if st["build"] or st.get("inline"):
                            continue
                        sid = '"%s".%s' % (p.path(st["pkg"]), st["var"])
                        if sid not in shown:
                            why.append("show does not list provider set %s" % sid)
                            continue
                        stats["sets_shown"] += 1
                        exp = expected_show(u, p, k)
                        got = shown[sid]["groups"]
                        if exp != got:
                            why.append("show groups the outputs of %s as %s, expected %s" % (
                                sid, {tuple(sorted(a)): sorted(b) for a, b in got.items()}, {tuple(sorted(a)): sorted(b) for a, b in exp.items()}))
                        want_imps = sorted('"%s".%s' % (p.path(u.sets[i]["pkg"]), u.sets[i]["var"]) for i in closure_imports(u, k)
                                           if not u.sets[i].get("inline"))
                        if sorted(shown[sid]["imports"]) != want_imps:
                            why.append("show lists the sets included by %s as %s, expected %s" % (sid, shown[sid]["imports"], want_imps))
            if why:
                fails.append({"stream": "c19", "program": p.name, "planted": p.c19, "why": why[:4], "files": G.materialise(p),
                              "gen_stderr": gerr[-500:], "check_stderr": cerr[-500:]})
            if stats["programs"] <= 2:
                rep.sample({"program": p.name, "planted": p.c19, "gen_exit": grc, "check_exit": crc, "show": sout[:400]})
    finally:
        rmtree(root)
    rep.coverage["c19"] = stats
    return dis, fails


def closure_imports(u, k):
    seen, todo = set(), list(u.sets[k]["imports"])
    while todo:
        i = todo.pop()
        if i in seen:
            continue
        seen.add(i)
        todo.extend(u.sets[i]["imports"])
    return seen


# ---- fixed scenario: provider sets written in place inside named sets ------------------------------------------

NESTED = '''package nest

import "github.com/google/wire"

type A struct{}
type B struct{ A A }
type C struct{}
type Config struct{}
type Store struct{ C Config }
type Logger struct{}
type Server struct {
	L Logger
	S Store
}

func NewA() A                         { return A{} }
func NewB(a A) B                      { return B{A: a} }
func NewC() C                         { return C{} }
func NewConfig() Config               { return Config{} }
func NewStore(c Config) Store         { return Store{C: c} }
func NewLogger() Logger               { return Logger{} }
func NewServer(l Logger, s Store) Server { return Server{L: l, S: s} }

var ConfigSet = wire.NewSet(NewConfig)
var StoreSet = wire.NewSet(NewStore)
var AppSet = wire.NewSet(wire.NewSet(NewLogger, ConfigSet), wire.NewSet(NewServer, StoreSet))

var Leaf = wire.NewSet(NewA)
var Mid = wire.NewSet(wire.NewSet(NewB, Leaf))
var Outer = wire.NewSet(Mid, wire.NewSet(NewC))
var Outer2 = wire.NewSet(wire.NewSet(NewC), Mid)
var Three = wire.NewSet(wire.NewSet(NewC), wire.NewSet(wire.NewSet(Leaf)), wire.NewSet(wire.NewSet(wire.NewSet(ConfigSet))))
'''
NESTED_WANT = {"ConfigSet": [], "StoreSet": [], "AppSet": ["ConfigSet", "StoreSet"], "Leaf": [], "Mid": ["Leaf"], "Outer": ["Leaf", "Mid"],
               "Outer2": ["Leaf", "Mid"], "Three": ["ConfigSet", "Leaf"]}
NESTED_OUT = {"AppSet": ["Config", "Logger", "Server", "Store"], "Outer": ["A", "B", "C"], "Three": ["A", "C", "Config"], "Mid": ["A", "B"]}


def run_nested(rep, tier):
    from .cmdtier import Workspace, MOD, panicked
    ws = Workspace()
    fails = []
    try:
        os.makedirs(ws.root + "/nest")
        open(ws.root + "/nest/nest.go", "w").write(NESTED)
        rc, out, err = ws.wire(["show", "./nest"])
        rc2, out2, err2 = ws.wire(["check", "./nest"])
        rep.evaluations += len(NESTED_WANT)
        if rc != 0 or rc2 != 0 or panicked(err + err2):
            fails.append({"stream": "c19-nested", "why": ["wire show/check fails on well-formed nested provider sets: " + (err + err2).strip()[-400:]]})
            return [], fails
        shown, _ = parse_show(out)
        for name, want in NESTED_WANT.items():
            sid = '"%s/nest".%s' % (MOD, name)
            rep.nontrivial.add("nested:" + name)
            if sid not in shown:
                fails.append({"stream": "c19-nested", "why": ["show does not list provider set %s" % name], "source": NESTED})
                continue
            got = sorted(x.split(".")[-1] for x in shown[sid]["imports"])
            if got != want:
                fails.append({"stream": "c19-nested", "source": NESTED, "show": out[:1500],
                              "why": ["show lists the named sets %s includes as %s; through its in-place sets it includes %s" % (name, got, want)]})
            if name in NESTED_OUT:
                outs = sorted(t.split(".")[-1] for ts in shown[sid]["groups"].values() for t in ts)
                if outs != NESTED_OUT[name]:
                    fails.append({"stream": "c19-nested", "source": NESTED, "why": ["show lists the outputs of %s as %s, expected %s" % (name, outs, NESTED_OUT[name])]})
    finally:
        ws.close()
    return [], fails
