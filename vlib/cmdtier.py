"""Command-level e2e tier (C17, C18, C19): real `wire` binary on small package variants, compared with
WireV.genExec / diffExec / runH through the `cmd` and `hist` requests of the model driver."""
import hashlib
import os
import random
import shutil

from . import e2e_run as R, e2e_check as C
from .common import WIRE, GOENV, REPO, run, scratch, rmtree, seed, log

MOD = "example.com/c"


def variant_files(kind, k=0, pkg="pk"):
    """sources of one package directory for a variant kind: A<k> accepted, E<k> accepted with error result,
    R rejected (missing provider), U rejected (unused provider), N no injectors, X does not type-check"""
    base = "package %s\n\ntype T struct{ N int }\n\ntype U struct{ T T }\n" % pkg
    inj_hdr = "//go:build wireinject\n// +build wireinject\n\npackage %s\n\nimport \"github.com/google/wire\"\n\n" % pkg
    if kind == "A":
        return {"a.go": base + "\nfunc NewT%d() T { return T{N: %d} }\n\nfunc NewU%d(t T) U { return U{T: t} }\n" % (k, k, k),
                "wire.go": inj_hdr + "func Init() U {\n\twire.Build(NewT%d, NewU%d)\n\treturn U{}\n}\n" % (k, k)}
    if kind == "E":
        return {"a.go": base + "\nfunc MakeT%d() (T, func(), error) { return T{N: %d}, func() {}, nil }\n" % (k, k),
                "wire.go": inj_hdr + "func Init() (T, func(), error) {\n\twire.Build(MakeT%d)\n\treturn T{}, nil, nil\n}\n\n"
                                     "func Init2() (T, func(), error) {\n\tpanic(wire.Build(MakeT%d))\n}\n" % (k, k)}
    if kind == "R":
        return {"a.go": base, "wire.go": inj_hdr + "func Init() U {\n\twire.Build(wire.Struct(new(U), \"*\"))\n\treturn U{}\n}\n"}
    if kind == "U":
        return {"a.go": base + "\nfunc NewT() T { return T{} }\n\nfunc NewU(t T) U { return U{T: t} }\n\nfunc NewInt() int { return 1 }\n",
                "wire.go": inj_hdr + "func Init() U {\n\twire.Build(NewT, NewU, NewInt)\n\treturn U{}\n}\n"}
    if kind in ("M", "F", "G"):
        # injectors spread over two files: M both fine; F the first file's injector cannot be built (missing provider), the last
        # file's can; G the other way round.  One failing injector fails the package, wherever it is written.
        good1 = "func Init() U {\n\twire.Build(NewT%d, NewU%d)\n\treturn U{}\n}\n" % (k, k)
        good2 = "func Init2() T {\n\twire.Build(NewT%d)\n\treturn T{}\n}\n" % k
        bad1 = "func Init() U {\n\twire.Build(NewU%d)\n\treturn U{}\n}\n" % k
        bad2 = "func Init2() T {\n\twire.Build(NewU%d)\n\treturn T{}\n}\n" % k
        return {"a.go": base + "\nfunc NewT%d() T { return T{N: %d} }\n\nfunc NewU%d(t T) U { return U{T: t} }\n" % (k, k, k),
                "a_wire.go": inj_hdr + (bad1 if kind == "F" else good1),
                "z_wire.go": inj_hdr + (bad2 if kind == "G" else good2)}
    if kind == "H":
        # a helper next to the injector, which Wire copies into its output: the output then declares the name dbx
        return {"a.go": base + "\nfunc NewT%d() T { return T{N: %d} }\n\nfunc NewU%d(t T) U { return U{T: t} }\n" % (k, k, k),
                "wire.go": inj_hdr + "func Init() U {\n\twire.Build(NewT%d, NewU%d)\n\treturn U{}\n}\n\nfunc dbx() int { return %d }\n\nvar _ = dbx()\n" % (k, k, k)}
    if kind == "I":
        # the same name is now a package the generated file has to import
        return {"a.go": base + "\nfunc NewU%d(t T) U { return U{T: t} }\n" % k,
                "dbx/dbx.go": "package dbx\n\nfunc NewN() int { return %d }\n" % (k + 7),
                "b.go": "package %s\n\nimport \"%s/%s/dbx\"\n\nfunc NewT%d(n int) T { return T{N: n} }\n\nvar _ = dbx.NewN\n" % (pkg, MOD, pkg, k),
                "wire.go": inj_hdr.replace('import "github.com/google/wire"', 'import (\n\t"github.com/google/wire"\n\t"%s/%s/dbx"\n)' % (MOD, pkg))
                + "func Init() U {\n\twire.Build(dbx.NewN, NewT%d, NewU%d)\n\treturn U{}\n}\n" % (k, k)}
    if kind == "L":
        # accepted; the injector file carries a //line directive (as generated sources do) that names a file in another directory
        hdr = inj_hdr.replace("package %s\n" % pkg, "//line ../pk0/inject.tmpl:5\npackage %s\n" % pkg)
        return {"a.go": base + "\nfunc NewT%d() T { return T{N: %d} }\n\nfunc NewU%d(t T) U { return U{T: t} }\n" % (k, k, k),
                "wire.go": hdr + "func Init() U {\n\twire.Build(NewT%d, NewU%d)\n\treturn U{}\n}\n" % (k, k)}
    if kind == "N":
        return {"a.go": base}
    if kind == "O":
        # nothing but a test file: no injectors, no Go files of the package proper
        return {"x_test.go": "package %s\n\nimport \"testing\"\n\nfunc TestNothing(t *testing.T) {}\n" % pkg}
    if kind == "X":
        return {"a.go": base + "\nvar bad int = \"not an int\"\n"}
    raise ValueError(kind)


def expected_errs(kind):
    return kind in ("R", "U", "F", "G")


def has_output(kind):
    return kind in ("A", "E", "M", "H", "I", "L")


class Workspace:
    def __init__(self):
        self.root = scratch("wvcmd")
        os.makedirs(self.root + "/_wire")
        shutil.copy(REPO + "/wire.go", self.root + "/_wire/wire.go")
        open(self.root + "/_wire/go.mod", "w").write("module github.com/google/wire\n\ngo 1.12\n")
        open(self.root + "/go.mod", "w").write(
            "module %s\n\ngo 1.21\n\nrequire github.com/google/wire v0.0.0\n\nreplace github.com/google/wire => ./_wire\n" % MOD)
        self.contents = {"": 0}      # bytes -> id
        self.ref = {}                # (kind, k, pkgname, opts) -> bytes
        self.ref_failures = []       # reference generations that failed: each a failing input

    def close(self):
        rmtree(self.root)

    def cid(self, b):
        if b is None:
            return None
        if b not in self.contents:
            self.contents[b] = len(self.contents)
        return self.contents[b]

    def set_variant(self, d, kind, k=0):
        p = self.root + "/" + d
        os.makedirs(p, exist_ok=True)
        for f in os.listdir(p):
            if f.endswith(".go") and not f.endswith("wire_gen.go"):
                os.remove(p + "/" + f)
        for name, content in variant_files(kind, k, pkg=d.split("/")[-1]).items():
            os.makedirs(os.path.dirname(p + "/" + name), exist_ok=True)
            open(p + "/" + name, "w").write(content)

    def read(self, d, name="wire_gen.go"):
        p = "%s/%s/%s" % (self.root, d, name)
        if os.path.isdir(p):
            return "<dir>"
        return open(p).read() if os.path.exists(p) else None

    def write(self, d, content, name="wire_gen.go"):
        p = "%s/%s/%s" % (self.root, d, name)
        if os.path.isdir(p):
            shutil.rmtree(p)
        if content is None:
            if os.path.exists(p):
                os.remove(p)
        elif content == "<dir>":
            if os.path.exists(p):
                os.remove(p)
            os.makedirs(p)
        else:
            open(p, "w").write(content)

    def snapshot(self):
        """hash of every file of the tree (relative path -> sha1)"""
        out = {}
        for base, dirs, files in os.walk(self.root):
            for f in files:
                p = os.path.join(base, f)
                out[os.path.relpath(p, self.root)] = hashlib.sha1(open(p, "rb").read()).hexdigest()
            for dn in dirs:
                out[os.path.relpath(os.path.join(base, dn), self.root) + "/"] = "dir"
        return out

    def wire(self, args, cwd=None, timeout=120):
        rc, out, err = run([WIRE] + args, cwd=cwd or self.root, env=dict(GOENV), timeout=timeout)
        return rc, out, err

    def wire_many(self, argvs, workers=12, timeout=120):
        """run several wire invocations concurrently; returns results in order"""
        from concurrent.futures import ThreadPoolExecutor
        with ThreadPoolExecutor(max_workers=workers) as ex:
            return list(ex.map(lambda a: self.wire(a, timeout=timeout), argvs))

    def reference(self, kind, k, d, opts=()):
        """bytes `wire gen` writes for this variant in a directory of its own (fresh checkout)"""
        hdr_text = ""
        if "-header_file" in opts:
            hp = list(opts)[list(opts).index("-header_file") + 1]
            hdr_text = open(hp).read() if os.path.exists(hp) else "<missing>"
        key = (kind, k, d.split("/")[-1], tuple(opts), hdr_text)
        if key in self.ref:
            return self.ref[key]
        ws = Workspace()
        try:
            ws.set_variant(d, kind, k)
            hdr = []
            o = list(opts)
            if "-header_file" in o:
                i = o.index("-header_file")
                open(ws.root + "/hdr.txt", "w").write(open(o[i + 1]).read())
                o[i + 1] = ws.root + "/hdr.txt"
            rc, out, err = ws.wire(["gen"] + o + ["./" + d])
            pref = ""
            if "-output_file_prefix" in o:
                pref = o[o.index("-output_file_prefix") + 1]
            b = ws.read(d, pref + "wire_gen.go")
            self.ref[key] = b if has_output(kind) else ""
            if has_output(kind) and (rc != 0 or b is None):
                # a well-formed package in a fresh directory of its own: this is a failing input, not a harness problem
                self.ref_failures.append({"stream": "cmd-reference", "variant": "%s%d" % (kind, k), "options": list(opts),
                                          "files": variant_files(kind, k, pkg=d.split("/")[-1]),
                                          "why": ["`wire gen %s ./%s` on a fresh checkout of a well-formed package exits %s and %s: %s"
                                                  % (" ".join(opts), d, rc, "writes no %swire_gen.go in the package directory" % pref if b is None else "wrote the file",
                                                     err.strip()[-300:])]})
                self.ref[key] = b or ""
        finally:
            ws.close()
        return self.ref[key]


GARBAGE = "//go:build !wireinject\n// +build !wireinject\n\npackage %s\n\nthis is not Go at all {{{\n"
NONCOMPILING = "//go:build !wireinject\n// +build !wireinject\n\npackage %s\n\nfunc Init() int { return \"nope\" }\n\nfunc Init2() {}\n"


def panicked(err):
    return "panic:" in err or "goroutine " in err


# ---- C17: single invocations -------------------------------------------------------------------------

PRIOR = ["absent", "same", "stale", "garbage", "noncompiling", "longstale", "dir"]


# invocations every run starts with: several packages with output under each option (the random cases reach a
# particular combination of option and package mix only now and then)
C17_SCRIPTED = [("gen", "AOA"), ("diff", "OA"), ("check", "AO"), ("gen-header", "AAA"), ("gen-header", "AEAA"), ("gen-prefix", "AA"), ("gen", "ARA"), ("diff-header", "AA"),
                ("gen-tags", "AE"), ("gen-default", "AUA"), ("diff", "RA"), ("gen-header", "ANRA"), ("diff", "AR"),
                ("gen", "AFA"), ("diff", "FA"), ("gen", "GM"), ("check", "F"), ("gen-header", "MF"),
                ("gen", "AL"), ("diff", "NL"), ("gen", "L")]


def c17_case(rng, ws, case_no, force=None):
    """build one invocation; returns dict with everything needed to run and to predict"""
    n = rng.randint(1, 4)
    if force:
        n = len(force[1])
    for d in os.listdir(ws.root):
        if d.startswith("pk"):
            shutil.rmtree(ws.root + "/" + d)
    pkgs = []
    for i in range(n):
        kind = rng.choice(["A", "A", "E", "R", "U", "N", "M", "F", "G", "L"])
        if rng.random() < 0.05:
            kind = "X"
        if force:
            kind = force[1][i]
        pkgs.append({"dir": "pk%d" % i, "kind": kind, "k": rng.randint(0, 3)})
    cmd = rng.choice(["gen", "gen", "gen-default", "gen-header", "gen-header-missing", "gen-prefix", "gen-tags",
                      "diff", "diff", "diff-header", "diff-header-missing", "check", "show"])
    if force:
        cmd = force[0]
    opts, sub = [], "gen"
    hdr_ok = True
    if cmd.startswith("diff"):
        sub = "diff"
    elif cmd in ("check", "show"):
        sub = cmd
    if cmd.endswith("-header"):
        open(ws.root + "/hdr.txt", "w").write("// Header line %d\n\n" % case_no)
        opts = ["-header_file", ws.root + "/hdr.txt"]
    if cmd.endswith("-header-missing"):
        opts = ["-header_file", ws.root + "/no-such-header.txt"]
        hdr_ok = False
    prefix = ""
    if cmd == "gen-prefix":
        prefix = "p_"
        opts = ["-output_file_prefix", prefix]
    if cmd == "gen-tags":
        opts = ["-tags", "foo"]
    for p in pkgs:
        ws.set_variant(p["dir"], p["kind"], p["k"])
        prior = rng.choice(PRIOR if sub == "gen" else PRIOR[:-1])
        ref_opts = [o for o in opts if hdr_ok]
        ref = ws.reference(p["kind"], p["k"], p["dir"], ref_opts if sub in ("gen", "diff") else ())
        p["ref"] = ref
        pk = p["dir"]
        content = {"absent": None, "same": ref if ref else None,
                   "stale": ws.reference("A", (p["k"] + 1) % 4 + 4, p["dir"], ()),
                   "garbage": GARBAGE % pk, "noncompiling": NONCOMPILING % pk, "dir": "<dir>",
                   "longstale": (ws.reference("E", 0, p["dir"], ()) or "") + ("\n// stale tail\nfunc staleHelper%d() {}\n" % case_no) * 4}[prior]
        p["prior"] = prior
        p["fname"] = prefix + "wire_gen.go"
        for f in ("wire_gen.go", "p_wire_gen.go"):
            ws.write(pk, None, f)
        ws.write(pk, content, p["fname"])
        p["before"] = content
    argv = ([] if cmd == "gen-default" else [sub]) + opts + ["./..."]
    return {"pkgs": pkgs, "cmd": cmd, "sub": sub, "argv": argv, "hdr_ok": hdr_ok, "prefix": prefix}


def c17_request(ws, case):
    """the `cmd` request for the model and the independent expectation"""
    pk = case["pkgs"]
    load_err = any(p["kind"] == "X" for p in pk)
    w = [1 if case["sub"] == "diff" else 0, 1 if case["hdr_ok"] else 0]
    if load_err:
        w += [0]
    else:
        w += [1, len(pk)]
        for i, p in enumerate(pk):
            w += [i + 1, 1 if expected_errs(p["kind"]) else 0, ws.cid(p["ref"]) if has_output(p["kind"]) else 0]
    unw = [i + 1 for i, p in enumerate(pk) if p["prior"] == "dir"]
    w += [len(unw)] + unw
    fs = [(i + 1, ws.cid(p["before"])) for i, p in enumerate(pk) if p["before"] is not None]
    w += [len(fs)] + [x for kv in fs for x in kv]
    return "cmd " + " ".join(str(x) for x in w)


def c17_oracle(case, rc, after, changed):
    """the property statement, directly"""
    bad = []
    pk = case["pkgs"]
    load_err = any(p["kind"] == "X" for p in pk)
    sub = case["sub"]
    allowed = {"%s/%s" % (p["dir"], p["fname"]) for p in pk if has_output(p["kind"])} if sub == "gen" else set()
    for path in changed:
        if path not in allowed:
            bad.append("%s modified %s, which is not the output file of a package that generated" % (sub, path))
    if sub == "gen" and case["hdr_ok"] and not load_err:
        fails = [p for p in pk if expected_errs(p["kind"])]
        unwritable = [p for p in pk if has_output(p["kind"]) and p["prior"] == "dir"]
        want = 0 if not fails and not unwritable else 1
        if (rc == 0) != (want == 0):
            bad.append("gen exit status %d, expected %s (failing packages: %s)" % (rc, "0" if want == 0 else "non-zero", [p["dir"] for p in fails]))
        for p in pk:
            got = after.get(p["dir"])
            if has_output(p["kind"]) and p["prior"] != "dir" and got != p["ref"]:
                bad.append("package %s analysed cleanly but its output file is not what a fresh generation writes "
                           "(a failing package must not prevent output for the others)" % p["dir"])
            if not has_output(p["kind"]) and got != p["before"]:
                bad.append("package %s produced no output but its existing file changed" % p["dir"])
    if sub == "gen" and (not case["hdr_ok"] or load_err) and rc == 0:
        bad.append("gen exited 0 although it could not run (header/load failure)")
    if sub == "diff":
        if not case["hdr_ok"] or load_err:
            want = 2
        elif any(expected_errs(p["kind"]) for p in pk):
            want = 2
        elif any(has_output(p["kind"]) and p["before"] != p["ref"] for p in pk):
            want = 1
        else:
            want = 0
        if rc != want:
            bad.append("diff exit status %d, expected %d" % (rc, want))
    if sub in ("check", "show"):
        want0 = not load_err and not any(expected_errs(p["kind"]) for p in pk)
        if (rc == 0) != want0:
            bad.append("%s exit status %d, expected %s" % (sub, rc, "0" if want0 else "non-zero"))
    return bad


def run_c17(rep, tier):
    from .e2e_check import model_replies
    rng = random.Random(seed() * 31 + 17)
    ws = Workspace()
    n = 50 if tier == "quick" else 500
    dis, fails = [], []
    stats = {}
    try:
        cases = []
        for i in range(n):
            case = c17_case(rng, ws, i, C17_SCRIPTED[i] if i < len(C17_SCRIPTED) else None)
            before = ws.snapshot()
            rc, out, err = ws.wire(case["argv"])
            after_snap = ws.snapshot()
            changed = sorted(k for k in set(before) | set(after_snap) if before.get(k) != after_snap.get(k))
            after = {p["dir"]: ws.read(p["dir"], p["fname"]) for p in case["pkgs"]}
            req = c17_request(ws, case)
            fs_obs = ",".join(sorted("%06d=%d" % (i + 1, ws.cid(after[p["dir"]])) for i, p in enumerate(case["pkgs"])
                                     if after[p["dir"]] is not None))
            impl = "exit %d fs %s" % (rc, fs_obs)
            desc = {"argv": case["argv"], "packages": [(p["dir"], p["kind"], p["prior"]) for p in case["pkgs"]]}
            cases.append((req, impl, desc, case, rc, after, changed, err))
            key = case["cmd"]
            stats[key] = stats.get(key, 0) + 1
            rep.evaluations += 1
            if len({p["kind"] for p in case["pkgs"]}) > 1 or any(p["prior"] not in ("absent",) for p in case["pkgs"]):
                rep.nontrivial.add(req + str(desc))
            if i < 3:
                rep.sample({"invocation": desc, "observed": impl})
        replies = model_replies([c[0] for c in cases])
        for (req, impl, desc, case, rc, after, changed, err), mod in zip(cases, replies):
            if case["sub"] in ("gen", "diff"):
                a, b = impl, mod
                if case["sub"] == "diff":
                    a, b = impl.split(" fs ")[0], mod.split(" fs ")[0]
                if a != b:
                    dis.append({"stream": "c17", "request": req, "impl": impl, "model": mod, "invocation": desc})
            bad = c17_oracle(case, rc, after, changed)
            if panicked(err):
                bad.append("wire panicked: " + err[-300:])
            if bad:
                fails.append({"stream": "c17", "request": req, "impl": impl, "why": bad, "invocation": desc,
                              "stderr": err[-600:]})
    finally:
        fails = ws.ref_failures[:3] + fails
        ws.close()
    rep.coverage["c17_commands"] = stats
    rep.assumptions += ["the reference content of a package is what `wire gen` writes for it in a directory of its own",
                        "ioutil.WriteFile, process exit and flag parsing are the real ones (not modelled)"]
    return dis, fails


# ---- C18: histories -------------------------------------------------------------------------------------

VARIANTS = [("A", 0), ("A", 1), ("E", 0), ("R", 0), ("N", 0), ("U", 0), ("H", 0), ("I", 0)]


def run_c18(rep, tier):
    from .e2e_check import model_replies
    rng = random.Random(seed() * 131 + 18)
    nh = 10 if tier == "quick" else 80
    maxlen = 12 if tier == "quick" else 40
    dis, fails = [], []
    known = set()
    ws = Workspace()
    d = "pk"
    try:
        # an ordinary package that sorts before pk: half of the invocations name the whole module, and what is written for pk must
        # not depend on the packages without Wire output that the same invocation loads before it
        ws.set_variant("pa", "N", 0)
        refs = [ws.reference(k, n, d) for k, n in VARIANTS]
        loads = []
        for (k, n), ref in zip(VARIANTS, refs):
            loads.append([1, 1, 1, 1 if expected_errs(k) else 0, ws.cid(ref) if has_output(k) else 0])
        long_stale = (refs[2] or "") + "\n// a longer, stale tail\nfunc staleHelper() int { return 42 }\n" * 3
        # a generated file somebody scribbled a note into / that an earlier run gave a header: comment lines above the marker
        noted = ["// NOTE(ops): regenerate before release\n// second line of the note\n\n" + (r or "") for r in (refs[0], refs[1], refs[2]) if r]
        clobbers = [refs[0], refs[1], refs[2], GARBAGE % d, NONCOMPILING % d, long_stale, (GARBAGE % d) * 6] + noted
        reqs, meta = [], []
        # scripted histories first: every kind of damaged / annotated old output directly followed by gen on every
        # variant that has output (the random histories reach these combinations only now and then)
        scripted = []
        for vi, (k, n) in enumerate(VARIANTS):
            if has_output(k):
                for ci in range(len(clobbers)):
                    scripted.append((vi, None, ["clobber:%d" % ci, "gen", "diff"]))
                scripted.append((vi, noted[0], ["gen", "gen"]))
        rng.shuffle(scripted)
        scripted = scripted[:(8 if tier == "quick" else len(scripted))]
        # a name the old output declares becomes the name of a package the new output imports, and back
        vH, vI = VARIANTS.index(("H", 0)), VARIANTS.index(("I", 0))
        scripted = [(vH, None, ["gen", "switch:%d" % vI, "gen", "diff"]), (vI, None, ["gen", "switch:%d" % vH, "gen", "diff"])] + scripted
        for h in range(nh + len(scripted)):
            plan = scripted[h] if h < len(scripted) else None
            v = plan[0] if plan else rng.randrange(len(VARIANTS))
            ws.set_variant(d, *VARIANTS[v])
            init = plan[1] if plan else rng.choice([None, refs[0], refs[2], GARBAGE % d, long_stale] + noted[:2])
            ws.write(d, init)
            ops, exits, enc = [], [], []
            cur = v
            trace = []
            for step in range(len(plan[2]) if plan else rng.randint(3, maxlen)):
                op = plan[2][step] if plan else rng.choice(["switch", "gen", "gen", "diff", "check", "delete", "clobber"])
                pick = None
                if op.startswith("clobber:"):
                    op, pick = "clobber", clobbers[int(op.split(":")[1])]
                before_file = ws.read(d)
                snap_before = ws.snapshot()
                to = None
                if op.startswith("switch:"):
                    op, to = "switch", int(op.split(":")[1])
                if op == "switch":
                    cur = rng.randrange(len(VARIANTS)) if to is None else to
                    ws.set_variant(d, *VARIANTS[cur])
                    enc += [0, cur]
                    exits.append("-")
                elif op == "delete":
                    ws.write(d, None)
                    enc += [3, 1]
                    exits.append("-")
                elif op == "clobber":
                    c = pick if pick is not None else rng.choice(clobbers)
                    ws.write(d, c)
                    enc += [4, 1, ws.cid(c)]
                    exits.append("-")
                else:
                    pat = "./..." if rng.random() < 0.5 else "./" + d
                    rc, out, err = ws.wire([op, pat])
                    kind = VARIANTS[cur][0]
                    after_file = ws.read(d)
                    if panicked(err):
                        fails.append({"stream": "c18", "why": ["wire panicked: " + err[-300:]], "history": trace + [op]})
                    if op == "check":
                        # read-only; exit 0 iff the variant is accepted
                        if after_file != before_file or ws.snapshot() != snap_before:
                            fails.append({"stream": "c18", "why": ["check modified the tree"], "history": trace + [op]})
                        if (rc == 0) != (not expected_errs(kind)):
                            fails.append({"stream": "c18", "why": ["check exit %d on variant %s" % (rc, kind)], "history": trace + [op]})
                        trace.append("check")
                        continue
                    enc += [1] if op == "gen" else [2]
                    exits.append(str(rc))
                    # direct oracle (the property statement)
                    if op == "diff" and (after_file != before_file or ws.snapshot() != snap_before):
                        fails.append({"stream": "c18", "why": ["diff modified the tree"], "history": trace + [op]})
                    if op == "gen" and rc == 0:
                        fresh = refs[cur] if has_output(kind) else None
                        if after_file != fresh:
                            why = "after a successful gen on variant %s%d the output file is not what a fresh checkout gets" % VARIANTS[cur]
                            if not has_output(kind) and after_file == before_file and before_file is not None:
                                known.add("D11")      # stale file survives when the package has no injectors any more
                            else:
                                fails.append({"stream": "c18", "why": [why], "history": trace + [op]})
                        rc2, _, _ = ws.wire(["gen", "./" + d])
                        if ws.read(d) != after_file or rc2 != 0:
                            fails.append({"stream": "c18", "why": ["running gen again changed the output or failed"], "history": trace + [op]})
                        rc3, _, _ = ws.wire(["diff", "./" + d])
                        if rc3 != 0:
                            fails.append({"stream": "c18", "why": ["diff right after a successful gen exits %d" % rc3], "history": trace + [op]})
                trace.append(op if op not in ("switch",) else "switch:%s%d" % VARIANTS[cur])
            final = ws.read(d)
            fs0 = [] if init is None else [1, ws.cid(init)]
            nops = sum(1 for e in exits)
            req = "hist %d %s %d %d %s %d %s" % (len(loads), " ".join(" ".join(map(str, l)) for l in loads), v,
                                               len(fs0) // 2, " ".join(map(str, fs0)), nops, " ".join(map(str, enc)))
            impl = "exits %s fs %s" % (",".join(exits), "" if final is None else "%06d=%d" % (1, ws.cid(final)))
            reqs.append(" ".join(req.split()))
            meta.append((impl.strip(), trace))
            rep.evaluations += 1
            if len(trace) >= 4:
                rep.nontrivial.add(" ".join(trace))
            if h < 3:
                rep.sample({"history": trace, "observed": impl})
        replies = model_replies(reqs)
        for req, (impl, trace), mod in zip(reqs, meta, replies):
            if impl != mod.strip():
                dis.append({"stream": "c18", "request": req, "impl": impl, "model": mod, "history": trace})
    finally:
        fails = ws.ref_failures[:3] + fails
        ws.close()
    rep.assumptions += ["H-iso: analysis does not read the output file (it is excluded by its !wireinject constraint) — "
                        "this is exactly what the history correspondence validates"]
    return dis, fails, known


# ---- -tags: injector files with further build constraints, repeated runs under one tag list -------------------------

def run_tags(rep, tier, which="C17"):
    """`wire gen -tags foo`: a package whose injector file is constrained by `wireinject && foo`, and an ordinary package, each
    generated, diffed, checked and generated again under the same tag list.  Declarative expectations only."""
    ws = Workspace()
    fails = []

    def bad(msg, **kw):
        fails.append(dict({"stream": "cmd-tags", "why": [msg]}, **kw))
    try:
        base = "package %s\n\ntype T struct{ N int }\n\ntype U struct{ T T }\n\nfunc NewT() T { return T{N: 1} }\n\nfunc NewU(t T) U { return U{T: t} }\n"
        inj = "package %s\n\nimport \"github.com/google/wire\"\n\nfunc Init() U {\n\twire.Build(NewT, NewU)\n\treturn U{}\n}\n"
        for pkg, cons in (("tg", "//go:build wireinject && foo\n// +build wireinject,foo\n\n"), ("tp", "//go:build wireinject\n// +build wireinject\n\n")):
            os.makedirs(ws.root + "/" + pkg)
            open("%s/%s/a.go" % (ws.root, pkg), "w").write(base % pkg)
            open("%s/%s/wire.go" % (ws.root, pkg), "w").write(cons + inj % pkg)
        for pkg in ("tg", "tp"):
            rep.nontrivial.add("tags/" + pkg)
            hist = []

            def step(argv):
                rc, out, err = ws.wire(argv)
                hist.append("wire %s -> exit %d %s" % (" ".join(argv), rc, err.strip()[-160:]))
                rep.evaluations += 1
                if panicked(err):
                    bad("wire panicked", history=list(hist))
                return rc
            rc = step(["gen", "-tags", "foo", "./" + pkg])
            first = ws.read(pkg)
            if rc != 0 or first is None or "func Init()" not in first:
                bad("`wire gen -tags foo` on a package whose injector file is selected under these tags exits %d and %s" % (
                    rc, "writes no wire_gen.go" if first is None else "the file lacks the injector"), history=list(hist), package=pkg)
                continue
            if which == "C17":
                rc = step(["diff", "-tags", "foo", "./" + pkg])
                if rc != 0:
                    bad("`wire diff -tags foo` right after `wire gen -tags foo` exits %d" % rc, history=list(hist), package=pkg)
                rc = step(["check", "-tags", "foo", "./" + pkg])
                if rc != 0:
                    bad("`wire check -tags foo` exits %d on an accepted package" % rc, history=list(hist), package=pkg)
                rcb, outb, errb = run(["go", "build", "-tags", "foo", "./" + pkg], cwd=ws.root, env=dict(GOENV), timeout=300)
                if rcb != 0:
                    bad("the package does not compile with the generated file: " + (outb + errb)[-300:], history=list(hist), package=pkg)
            else:
                # C18: the same command again sees its own output and must leave exactly the same file; diff is silent; a hand-damaged
                # file that keeps the constraint line is replaced by the same bytes
                rc = step(["gen", "-tags", "foo", "./" + pkg])
                if rc != 0 or ws.read(pkg) != first:
                    bad("running `wire gen -tags foo` a second time %s" % ("fails (exit %d)" % rc if rc != 0 else "changes the file"), history=list(hist), package=pkg)
                    continue
                rc = step(["diff", "-tags", "foo", "./" + pkg])
                if rc != 0:
                    bad("`wire diff -tags foo` after two generations exits %d" % rc, history=list(hist), package=pkg)
                head = first.split("package ")[0]
                ws.write(pkg, head + "package %s\n\nfunc staleHelper() int { return 1 }\n" % pkg)
                rc = step(["gen", "-tags", "foo", "./" + pkg])
                if rc != 0 or ws.read(pkg) != first:
                    bad("after the output was replaced by a stale file with the generated header, `wire gen -tags foo` %s" % (
                        "fails (exit %d)" % rc if rc != 0 else "does not restore what a fresh checkout gets"), history=list(hist), package=pkg)
    finally:
        ws.close()
    return [], fails
