"""Run a batch of abstract programs through the real tool chain and the model; collect verdicts."""
import os
import random
import re
import time

from . import e2e_gen as G, e2e_run as R, e2e_check as C, planner
from .common import scratch, rmtree, log, seed, run, GOENV, BuildState


class UnitResult:
    def __init__(self, prog, u):
        self.prog, self.u = prog, u
        self.ix = C.UnitIndex(prog, u)
        self.case = G.planner_case(u)
        self.request = G.request_line(u, self.case, prog.name)
        self.sets_request = "sets " + " ".join(self.request.split()[1:-1])
        self.impl = None          # canonical reply of the implementation
        self.model = None         # canonical reply of the model
        self.model_sets = None
        self.wire_errors = []
        self.ir_problems = []
        self.build_errors = []
        self.runs = []
        self.run_bad = []         # (prop, message)
        self.pkg_status = None
        self.fn = None
        self.emit_impl = self.emit_model = None
        self.emit_bad = []
        self.run_pairs = []       # (plan, impl projection, model reply)

    def summary(self):
        return {"prog": self.prog.name, "unit": self.u.uid, "request": self.request, "impl": self.impl, "model": self.model}


def evaluate(progs, want_build=True, want_run=True, keep=False, vet=False):
    """-> (list of UnitResult, batch info dict)"""
    root = scratch("wve2e")
    info = {"root": root, "wire_rc": None, "build_rc": None, "unattributed": [], "times": {}}
    units = []
    try:
        R.build_tools()
        R.write_module(root, progs, stale=want_build)
        t = time.time()
        rc, out, err = R.wire_gen(root)
        if re.search(r"(?m)^wire: generate failed$", err):
            # the packages did not load.  If that is because a generated program is not valid Go (a defect of the generator,
            # never of Wire), drop that program and run again; if every program type-checks, the load failure stands.
            rcv, outv, errv = run(["go", "vet", "-tags", "wireinject", "./..."], cwd=root, env=dict(GOENV), timeout=600)
            badp = set()
            for ln in (outv + errv).split("\n"):
                m = re.match(r"(?:vet: )?(?:\./)?(p[\w]+)/\S+\.go:\d+:\d+: (.*)", ln)
                if m and "json tag" not in m.group(2) and "self-assignment" not in m.group(2):
                    badp.add(m.group(1))
            badp &= {p.name for p in progs}
            if badp:
                info["invalid_programs_dropped"] = sorted(badp)
                log("e2e: %d generated programs are not valid Go and were dropped: %s" % (len(badp), sorted(badp)[:5]))
                for nm in badp:
                    rmtree(root + "/" + nm)
                progs = [p for p in progs if p.name not in badp]
                rc, out, err = R.wire_gen(root)
        info["times"]["wire_gen"] = round(time.time() - t, 2)
        info["wire_rc"] = rc
        info["wire_stderr_tail"] = err[-2000:]
        res, left = R.parse_wire_stderr(err)
        info["unattributed"] = [l for l in left if l not in ("at least one generate failure",)]
        gen_paths = []
        for p in progs:
            for u in p.units:
                ur = UnitResult(p, u)
                units.append(ur)
                pkgpath = p.path(u.inj["pkg"])
                st = res.get(pkgpath)
                ur.pkg_status = st["status"] if st else None
                if st:
                    for msg in st["errors"]:
                        key = injector_at(root, p, msg) or C.unit_of_message(p, msg)
                        mine = C.unit_key(u)
                        if key == mine or (key is None and len(p.units) == 1):
                            ur.wire_errors.append(msg)
                        elif key is not None and key.endswith("?") and key[:-1] == str(u.uid) and not has_twin(p, u):
                            ur.wire_errors.append(msg)
                        elif key is not None and key.endswith("?") and key[:-1] == str(u.uid) and not getattr(u, "shadow", False):
                            ur.ambiguous = True      # names the unit's types only: could belong to either twin
                            ur.wire_errors.append(msg)
                        elif key is None:
                            info["unattributed"].append(msg)
            gp = "%s/%s/%s/wire_gen.go" % (root, p.name, p.pkgmap["app"]["dir"])
            if os.path.exists(gp):
                gen_paths.append(gp)
        irs = R.irparse(gen_paths)
        for ur in units:
            gp = "%s/%s/%s/wire_gen.go" % (root, ur.prog.name, ur.prog.pkgmap["app"]["dir"])
            if ur.wire_errors:
                ur.impl = C.norm_err(C.norm_unused(ur.ix, "err " + " ".join(C.classify(ur.ix, m) for m in ur.wire_errors)))
            elif ur.pkg_status == "wrote" and gp in irs:
                f = irs[gp]
                if f.get("funcs") is None:
                    # wire reports success but what it wrote is not a Go file
                    ur.impl = "no-output"
                    ur.ir_problems = ["wire reported `wrote` but the file it left is not valid Go: %s" % str(f.get("err") or f.get("Err") or "")[:200]]
                    ur.irfile = f
                    continue
                fn = next((x for x in f["funcs"] if x["name"] == ur.u.inj["name"]), None)
                if fn is None:
                    ur.impl = "missing-injector"
                else:
                    ur.fn = fn
                    toks, probs = C.ir_calls(ur.ix, fn, f)
                    ur.ir_problems = probs
                    ur.impl = " ".join(["ok"] + toks)
                    ur.emit_impl, ur.emit_bad = C.ir_emit(ur.ix, fn)
                ur.irfile = f
            elif ur.pkg_status == "failed":
                ur.impl = "blocked"      # another injector of the package failed: nothing is written
            else:
                ur.impl = "no-output"
        # model
        lines = []
        for ur in units:
            lines += [ur.request, ur.sets_request]
        for ur in units:
            tail = " ".join(ur.request.split()[1:])
            lines.append("emit %d %d %s" % (int(ur.u.inj["cleanup"]), int(ur.u.inj["err"]), tail))
        mr = C.model_replies(lines)
        for k, ur in enumerate(units):
            if 2 * len(units) + k < len(mr):
                ur.emit_model = mr[2 * len(units) + k]
            if 2 * k + 1 < len(mr):
                ur.model, ur.model_sets = mr[2 * k], mr[2 * k + 1]
                if ur.model.startswith("err") and "importfailed" in ur.model:
                    rcs = C.root_causes(ur.model_sets)
                    ur.model = "err " + " ".join(sorted(rcs))
                ur.model = C.norm_err(C.norm_unused(ur.ix, ur.model))
                # inject's signature test comes after planning: the verdict of the whole pipeline
                if ur.model.startswith("ok") and (ur.emit_model or "").startswith("err"):
                    ur.model = C.norm_err(ur.emit_model)
        if want_build:
            t = time.time()
            rc, bad, lg = R.go_build(root)
            info["times"]["go_build"] = round(time.time() - t, 2)
            info["build_rc"] = rc
            info["build_log"] = lg[-3000:] if rc != 0 else ""
            for ur in units:
                pre = "%s/%s/" % (G.MOD, ur.prog.name)
                for pk, msgs in bad.items():
                    if pk.startswith(pre) and ur.pkg_status == "wrote":
                        ur.build_errors += ["%s: %s" % (pk, m) for m in msgs[:6]]
            if vet:
                t = time.time()
                rc, lg = R.go_vet(root)
                info["times"]["go_vet"] = round(time.time() - t, 2)
                info["vet_rc"], info["vet_log"] = rc, lg[-2000:] if rc != 0 else ""
            if want_run:
                t = time.time()
                by_prog = {}
                for ur in units:
                    by_prog.setdefault(ur.prog.name, []).append(ur)
                for name, urs in by_prog.items():
                    if any(u.build_errors for u in urs) or not os.path.exists(root + "/bin/" + name):
                        continue
                    if any(u.impl is None or not u.impl.startswith("ok") for u in urs):
                        continue
                    rc, runs, err = R.run_driver(root, name)
                    for ur in urs:
                        ur.runs = [r for r in runs if r["inj"] == ur.u.inj["name"]]
                        if rc != 0:
                            ur.run_bad.append(("C01", "driver crashed rc=%s: %s" % (rc, err[-300:])))
                        orc = C.RunOracle(ur.ix)
                        for rn in ur.runs:
                            for pr, msg in orc.check_run(rn):
                                ur.run_bad.append((pr, "plan=%s: %s" % (",".join(rn["plan"]), msg)))
                # predicted traces for every executed plan
                rl, owners = [], []
                for ur in units:
                    tail = " ".join(ur.request.split()[1:])
                    for rn in ur.runs:
                        ids = [p.split("Prov")[-1] for p in rn["plan"]]
                        rl.append("run %d %d %d %s %s" % (int(ur.u.inj["cleanup"]), int(ur.u.inj["err"]), len(ids), " ".join(ids), tail))
                        owners.append((ur, rn))
                if rl:
                    rr = C.model_replies([" ".join(x.split()) for x in rl])
                    for (ur, rn), rep in zip(owners, rr):
                        ur.run_pairs.append((",".join(rn["plan"]), C.run_projection(ur.ix, rn), rep))
                info["times"]["run"] = round(time.time() - t, 2)
        return units, info
    finally:
        if not keep:
            rmtree(root)


_LINES = {}


def injector_at(root, p, msg):
    """the injector whose template contains the position a diagnostic starts with (file wire.go of package app)"""
    import re
    d = "%s/%s/%s/" % (root, p.name, p.pkgmap["app"]["dir"])
    m = re.match(r"^(%s[\w.]+\.go):(\d+):\d+: " % re.escape(d), msg)
    if not m:
        return None
    f = m.group(1)
    m = re.match(r"^%s:(\d+):\d+: " % re.escape(f), msg)
    if f not in _LINES:
        spans = []
        try:
            cur = None
            for n, line in enumerate(open(f).read().split("\n"), 1):
                mm = re.match(r"func Init(\d+b?)\(", line)
                if mm:
                    cur = [n, mm.group(1), n + 4]
                    spans.append(cur)
                elif cur is not None and line == "}":
                    cur[2] = n            # the template ends here: what follows (set variables, helpers) is not the injector's
                    cur = None
        except OSError:
            pass
        _LINES[f] = spans
    line = int(m.group(1))
    best = None
    for start, key, end in _LINES[f]:
        if start <= line <= end:
            best = (start, key)
    if best is None:
        return None
    return best[1]


def has_twin(p, u):
    return any(getattr(x, "twin_of", None) is u or getattr(u, "twin_of", None) is x for x in p.units if x is not u)


def gen_batch(n, opts, tag=""):
    rng = random.Random(seed() * 7919 + sum(ord(c) * (i + 1) for i, c in enumerate(tag)) % 1000)
    progs = [G.gen_prog(rng, "p%s%d" % (tag, k), opts) for k in range(n)]
    if opts.get("adversarial") and opts.get("plant"):
        # renaming first: some planted defects look at the names
        from . import e2e_names
        for p in progs:
            e2e_names.adversarial(rng, p, opts)
    if opts.get("plant"):
        for p in progs:
            for u in p.units:
                u.planted = None
                if rng.random() < opts.get("plant_p", 0.6):
                    kinds = [k for k in opts["plant"] if (k == "twinunused") == bool(getattr(u, "shadow", False))] or opts["plant"]
                    # the rarer shapes first: a kind that does not apply to this unit falls through to the next
                    order = list(kinds)
                    rng.shuffle(order)
                    if rng.random() < 0.5:
                        order.sort(key=lambda k: k in ("missing", "dup", "unused"))
                    for kind in order:
                        note = G.plant(rng, u, kind)
                        if note:
                            u.planted = (kind, note)
                            break
    if opts.get("adversarial") and not opts.get("plant"):
        from . import e2e_names
        for p in progs:
            e2e_names.adversarial(rng, p, opts)
    if opts.get("p_multi_file"):
        # the injectors of the package spread over two or three files (own random stream)
        r3 = random.Random(seed() * 130363 + len(tag))
        for p in progs:
            if r3.random() < opts["p_multi_file"]:
                p.inj_files = r3.choice([2, 2, 3])
    if opts.get("p_wire_import_forms"):
        # the injector files reach the marker functions through a dot import or a renamed import (own random stream:
        # the programs themselves stay what they were)
        r2 = random.Random(seed() * 104729 + len(tag))
        for p in progs:
            if r2.random() < opts["p_wire_import_forms"]:
                p.wire_import = r2.choice(["dot", "dot", "renamed"])
    return progs
