"""e2e tier: materialise programs into one Go module, run the real `wire`, build, run, parse."""
import json
import os
import re
import shutil

from . import e2e_gen as G
from .common import V, REPO, WIRE, BUILD, GOENV, run, scratch, rmtree, log

IRPARSE = BUILD + "/irparse"


def build_tools():
    if not os.path.exists(IRPARSE) or os.path.getmtime(IRPARSE) < os.path.getmtime(V + "/harness/irparse/main.go"):
        rc, out, err = run(["go", "build", "-o", IRPARSE, "."], cwd=V + "/harness/irparse")
        if rc != 0:
            raise RuntimeError("irparse build failed: " + err)


def write_module(root, progs, extra_files=None):
    os.makedirs(root + "/_wire", exist_ok=True)
    shutil.copy(REPO + "/wire.go", root + "/_wire/wire.go")
    open(root + "/_wire/go.mod", "w").write("module github.com/google/wire\n\ngo 1.12\n")
    open(root + "/go.mod", "w").write(
        "module %s\n\ngo 1.21\n\nrequire github.com/google/wire v0.0.0\n\nreplace github.com/google/wire => ./_wire\n" % G.MOD)
    os.makedirs(root + "/wtrace", exist_ok=True)
    shutil.copy(V + "/harness/gosrc/wtrace/wtrace.go", root + "/wtrace/wtrace.go")
    for p in progs:
        files = G.materialise(p)
        files["cmd/%s/main.go" % p.name] = G.driver_main(p)
        for rel, content in files.items():
            path = "%s/%s/%s" % (root, p.name, rel)
            os.makedirs(os.path.dirname(path), exist_ok=True)
            open(path, "w").write(content)
    for rel, content in (extra_files or {}).items():
        path = root + "/" + rel
        os.makedirs(os.path.dirname(path), exist_ok=True)
        open(path, "w").write(content)


def parse_wire_stderr(err):
    """-> {pkgpath: {'status': 'wrote'|'failed', 'errors': [msg]}}, leftovers"""
    res, cur, left = {}, [], []
    msg = None
    for line in err.split("\n"):
        if line.startswith("wire: "):
            if msg is not None:
                cur.append(msg)
            msg = line[len("wire: "):]
            m = re.match(r"(\S+): (wrote|generate failed|failed to write)", msg)
            if m:
                st = "wrote" if m.group(2) == "wrote" else "failed"
                d = res.setdefault(m.group(1), {"status": st, "errors": []})
                d["status"] = st if d["status"] != "failed" else "failed"
                d["errors"] += cur
                cur, msg = [], None
        elif line.startswith("\t") and msg is not None:
            msg += "\n" + line[1:]
        elif line.strip():
            left.append(line)
    if msg is not None:
        cur.append(msg)
    return res, cur + left


def wire_gen(root, patterns=("./...",), args=(), cwd=None, timeout=300):
    env = dict(GOENV)
    rc, out, err = run([WIRE, "gen"] + list(args) + list(patterns), cwd=cwd or root, env=env, timeout=timeout)
    return rc, out, err


def go_build(root, timeout=600):
    os.makedirs(root + "/bin", exist_ok=True)
    rc, out, err = run(["go", "build", "-o", root + "/bin/", "./..."], cwd=root, timeout=timeout)
    bad = {}
    cur = None
    for line in (out + err).split("\n"):
        m = re.match(r"# (\S+)", line)
        if m:
            cur = m.group(1)
            bad[cur] = []
        elif cur and line.strip():
            bad[cur].append(line)
    return rc, bad, out + err


def go_vet(root, timeout=600):
    rc, out, err = run(["go", "vet", "./..."], cwd=root, timeout=timeout)
    return rc, out + err


def irparse(paths):
    if not paths:
        return {}
    rc, out, err = run([IRPARSE] + paths)
    if rc != 0:
        raise RuntimeError("irparse: " + err)
    return {f["path"]: f for f in json.loads(out)}


def run_driver(root, name, timeout=60):
    rc, out, err = run([root + "/bin/" + name], cwd=root, timeout=timeout)
    runs, cur = [], None
    for line in out.split("\n"):
        if line.startswith("RUN "):
            m = re.match(r"RUN (\S+) plan=(.*)$", line)
            cur = {"inj": m.group(1), "plan": [x for x in m.group(2).split(",") if x], "trace": [], "ctrace": [],
                   "result": None, "err": None, "cleanup": None}
            runs.append(cur)
        elif cur is None:
            continue
        elif line.startswith("T "):
            cur["trace"].append(line[2:])
        elif line.startswith("C "):
            cur["ctrace"].append(line[2:])
        elif line.startswith("RESULT "):
            cur["result"] = line[7:]
        elif line.startswith("ERR "):
            cur["err"] = line[4:]
        elif line.startswith("CLEANUP "):
            cur["cleanup"] = line[8:]
    return rc, runs, err
