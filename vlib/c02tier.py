"""C02: the wiring follows the *current* sources, also when the designated source of a type changes in a package the
injector's package does not import directly (a nested provider set two packages away) between two runs of wire gen."""
import os
import time

from .cmdtier import Workspace, panicked, MOD
from .common import GOENV, run

LEAF = '''package leaf

import "github.com/google/wire"

type Clock interface{ Now() string }

type Real struct{}

func (*Real) Now() string { return "real" }

type Mock struct{}

func (*Mock) Now() string { return "mock" }

func NewReal() *Real { return &Real{} }

func NewMock() *Mock { return &Mock{} }

var Limit = %(limit)d

var Set = wire.NewSet(%(prov)s, wire.Bind(new(Clock), new(*%(impl)s)), wire.Value(Limit))
'''
MID = '''package mid

import (
	"github.com/google/wire"
	"%s/leaf"
)

type App struct {
	C leaf.Clock
	N int
}

func NewApp(c leaf.Clock, n int) App { return App{C: c, N: n} }

var AppSet = wire.NewSet(leaf.Set, NewApp)
''' % MOD
INJ = '''//go:build wireinject
// +build wireinject

package app

import (
	"github.com/google/wire"
	"%s/mid"
)

func Init() mid.App {
	panic(wire.Build(mid.AppSet))
}
''' % MOD
MAIN = 'package main\n\nimport (\n\t"fmt"\n\n\t"%s/app"\n)\n\nfunc main() {\n\ta := app.Init()\n\tfmt.Println(a.C.Now(), a.N)\n}\n' % MOD
STEPS = [({"prov": "NewReal", "impl": "Real", "limit": 1}, "real 1"), ({"prov": "NewMock", "impl": "Mock", "limit": 1}, "mock 1"),
         ({"prov": "NewMock", "impl": "Mock", "limit": 2}, "mock 2"), ({"prov": "NewReal", "impl": "Real", "limit": 2}, "real 2")]


def run_rewire(rep, tier):
    ws = Workspace()
    fails = []
    try:
        for d in ("leaf", "mid", "app", "cmd/run"):
            os.makedirs(ws.root + "/" + d)
        open(ws.root + "/mid/mid.go", "w").write(MID)
        open(ws.root + "/app/wire.go", "w").write(INJ)
        open(ws.root + "/app/app.go", "w").write("package app\n")
        open(ws.root + "/cmd/run/main.go", "w").write(MAIN)
        hist = []
        for n, (v, want) in enumerate(STEPS):
            open(ws.root + "/leaf/leaf.go", "w").write(LEAF % v)
            # the edit is later than everything written so far, as an editor's save would be
            t = time.time() + 2 * (n + 1)
            os.utime(ws.root + "/leaf/leaf.go", (t, t))
            rc, out, err = ws.wire(["gen", "./app"])
            hist.append("edit leaf (%s); wire gen ./app -> exit %d %s" % (v, rc, err.strip()[-120:]))
            rep.evaluations += 1
            rep.nontrivial.add("rewire-%d" % n)
            if rc != 0 or panicked(err):
                fails.append({"stream": "c02-rewire", "history": hist, "why": ["wire gen fails on a well-formed program: " + err.strip()[-300:]]})
                break
            rcr, outr, errr = run(["go", "run", "./cmd/run"], cwd=ws.root, env=dict(GOENV), timeout=300)
            got = outr.strip()
            if rcr != 0 or got != want:
                fails.append({"stream": "c02-rewire", "history": hist, "wire_gen.go": open(ws.root + "/app/wire_gen.go").read()[:1500],
                              "why": ["after the provider set two packages away was edited and wire gen ran again (exit 0), the injector "
                                      "still does not use the designated sources: program prints %r, the current sources say %r %s"
                                      % (got, want, errr.strip()[-200:])]})
                break
    finally:
        ws.close()
    return [], fails


# ---- one type, several spellings ---------------------------------------------------------------------------
# Identical unnamed types can be written in more than one way (`any` / `interface{}`, parameter names in function types, method
# order in interface literals, byte / uint8, rune / int32).  Every consumer, however it spells the type, must receive the one
# value its provider built, and the provider must run once.
SPELLINGS = [
    ("map[string]any", "map[string]interface{}", "map[string]any{\"k\": 1}", "fmt.Sprintf(\"%p\", x)"),
    ("func(n int) error", "func(int) error", "func(int) error { return nil }", "fmt.Sprintf(\"%p\", x)"),
    ("interface{ A(); B() }", "interface{ B(); A() }", "ab{}", "fmt.Sprintf(\"%p\", x)"),
    ("[]byte", "[]uint8", "make([]byte, 3)", "fmt.Sprintf(\"%p\", x)"),
    ("map[rune]bool", "map[int32]bool", "map[rune]bool{}", "fmt.Sprintf(\"%p\", x)"),
    ("chan<- struct{ X int }", "chan<- struct{ X int }", "make(chan<- struct{ X int })", "fmt.Sprintf(\"%p\", x)"),
    ("*[2]func(a, b int)", "*[2]func(int, int)", "new([2]func(int, int))", "fmt.Sprintf(\"%p\", x)"),
]


def run_spellings(rep, tier):
    import random
    from .common import seed
    rng = random.Random(seed() * 911 + 2)
    ncase = 8 if tier == "quick" else 60
    ws = Workspace()
    fails = []
    try:
        cases = []
        for k in range(ncase):
            pkg = "sp%d" % k
            picks = rng.sample(range(len(SPELLINGS)), rng.randint(1, 4))
            d = ws.root + "/" + pkg
            os.makedirs(d)
            L = ["package %s" % pkg, "", 'import "fmt"', "", "var Calls []string", "", "type ab struct{}", "", "func (*ab) A() {}", "",
                 "func (*ab) B() {}", "", "var _ = fmt.Sprint", ""]
            provs, fields, nuse = [], [], {}
            for i in picks:
                a, b, val, _ = SPELLINGS[i]
                val = "&ab{}" if val == "ab{}" else val
                L.append("func Provide%d() %s {\n\tCalls = append(Calls, \"p%d\")\n\treturn %s\n}\n" % (i, rng.choice([a, b]), i, val))
                provs.append("Provide%d" % i)
                n = rng.randint(2, 3)
                nuse[i] = n
                for c in range(n):
                    sp = [a, b][c % 2] if rng.random() < 0.8 else rng.choice([a, b])
                    L.append("type C%d_%d struct{ Seen string }\n" % (i, c))
                    L.append("func NewC%d_%d(x %s) C%d_%d { return C%d_%d{Seen: fmt.Sprintf(\"%%p\", x)} }\n" % (i, c, sp, i, c, i, c))
                    provs.append("NewC%d_%d" % (i, c))
                    fields.append("C%d_%d" % (i, c))
            L.append("type App struct {\n%s\n}\n" % "\n".join("\tF%s %s" % (f, f) for f in fields))
            open(d + "/types.go", "w").write("\n".join(L))
            rng.shuffle(provs)
            open(d + "/wire.go", "w").write("//go:build wireinject\n// +build wireinject\n\npackage %s\n\nimport \"github.com/google/wire\"\n\n"
                                            "func Init() App {\n\tpanic(wire.Build(%s, wire.Struct(new(App), \"*\")))\n}\n" % (pkg, ", ".join(provs)))
            cases.append((pkg, picks, nuse, fields))
        results = ws.wire_many([["gen", "./" + c[0]] for c in cases], timeout=120)
        ok = []
        for c, (rc, out, err) in zip(cases, results):
            rep.evaluations += 1
            rep.nontrivial.add("spell/" + c[0])
            if rc != 0 or panicked(err):
                fails.append({"stream": "c02-spellings", "why": ["wire gen fails on a well-formed program: " + err.strip()[-300:]], "package": c[0]})
            else:
                ok.append(c)
        os.makedirs(ws.root + "/cmd/spell")
        L = ["package main", "", "import (", '\t"fmt"', '\t"reflect"'] + ['\t"%s/%s"' % (MOD, c[0]) for c in ok] + [")", "", "func main() {"]
        for pkg, picks, nuse, fields in ok:
            L.append("\t{\n\t\t%s.Calls = nil\n\t\ta := %s.Init()\n\t\tv := reflect.ValueOf(a)\n\t\tfor i := 0; i < v.NumField(); i++ {\n"
                     "\t\t\tfmt.Println(\"%s\", v.Type().Field(i).Name, v.Field(i).Field(0).String())\n\t\t}\n\t\tfmt.Println(\"%s CALLS\", %s.Calls)\n\t}"
                     % (pkg, pkg, pkg, pkg, pkg))
        L.append("}")
        open(ws.root + "/cmd/spell/main.go", "w").write("\n".join(L) + "\n")
        rc, out, err = run(["go", "run", "./cmd/spell"], cwd=ws.root, env=dict(GOENV), timeout=300)
        if rc != 0:
            fails.append({"stream": "c02-spellings", "why": ["generated injectors do not build / run: " + (out + err)[-500:]]})
        seen, calls = {}, {}
        for line in out.split("\n"):
            ws_ = line.split()
            if len(ws_) >= 3 and ws_[1] == "CALLS":
                calls[ws_[0]] = line.split("CALLS", 1)[1].strip()
            elif len(ws_) == 3:
                seen.setdefault(ws_[0], {})[ws_[1]] = ws_[2]
        for pkg, picks, nuse, fields in ok:
            for i in picks:
                ptrs = {seen.get(pkg, {}).get("FC%d_%d" % (i, c)) for c in range(nuse[i])}
                n = (calls.get(pkg, "")).count("p%d" % i)
                if len(ptrs) != 1 or n != 1:
                    a, b = SPELLINGS[i][0], SPELLINGS[i][1]
                    fails.append({"stream": "c02-spellings", "package": pkg, "wire_gen.go": (ws.read(pkg) or "")[:2500],
                                  "why": ["the provider of %s (also written %s) ran %d times and its %d consumers saw %d different values"
                                          % (a, b, n, nuse[i], len(ptrs))]})
    finally:
        ws.close()
    return [], fails


def run_dup_spellings(rep, tier):
    """C05: two sources of one unnamed type that is written in two ways are still two sources of one type"""
    ws = Workspace()
    fails = []
    try:
        cases = []
        for i, (a, b, val, _) in enumerate(SPELLINGS):
            if a == b:
                continue
            val = "&ab{}" if val == "ab{}" else val
            for form in ("direct", "nested", "arg"):
                pkg = "ds%d%s" % (i, form[0])
                d = ws.root + "/" + pkg
                os.makedirs(d)
                open(d + "/t.go", "w").write(
                    "package %s\n\ntype ab struct{}\n\nfunc (*ab) A() {}\n\nfunc (*ab) B() {}\n\ntype Other struct{}\n\ntype C struct{}\n\n"
                    "func ProvideA() %s { return %s }\n\nfunc ProvideB() %s { return %s }\n\nfunc NewOther() Other { return Other{} }\n\n"
                    "func NewC(x %s, o Other) C { return C{} }\n" % (pkg, a, val, b, val, a))
                body = {"direct": "func Init() C {\n\tpanic(wire.Build(ProvideA, ProvideB, NewOther, NewC))\n}\n",
                        "nested": "var Set = wire.NewSet(ProvideA, NewOther)\n\nfunc Init() C {\n\tpanic(wire.Build(Set, ProvideB, NewC))\n}\n",
                        "arg": "var Set = wire.NewSet(ProvideA, NewOther)\n\nfunc Init(x %s) C {\n\tpanic(wire.Build(Set, NewC))\n}\n" % b}[form]
                open(d + "/wire.go", "w").write("//go:build wireinject\n// +build wireinject\n\npackage %s\n\nimport \"github.com/google/wire\"\n\n%s" % (pkg, body))
                cases.append((pkg, a, b, form))
        results = ws.wire_many([["gen", "./" + c[0]] for c in cases], timeout=120)
        for (pkg, a, b, form), (rc, out, err) in zip(cases, results):
            rep.evaluations += 1
            rep.nontrivial.add("dupspell/" + pkg)
            if panicked(err):
                fails.append({"stream": "c05-spellings", "why": ["wire panicked: " + err[-300:]], "package": pkg})
            elif rc == 0 or "multiple bindings" not in err or ws.read(pkg) is not None:
                fails.append({"stream": "c05-spellings", "package": pkg, "wire_gen.go": (ws.read(pkg) or "")[:1500],
                              "why": ["two sources of one type, written %s and %s (%s): wire %s: %s" % (
                                  a, b, form, "accepts and generates" if rc == 0 else "reports no multiple-bindings error", err.strip()[-300:])]})
    finally:
        ws.close()
    return [], fails
