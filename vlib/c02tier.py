"""C02: the wiring follows the *current* sources, also when the designated source of a type changes in a package the
injector's package does not import directly (a nested provider set two packages away) between two runs of wire gen."""
import os
import time

from .cmdtier import Workspace, panicked, MOD
from .common import GOENV, run

LEAF = '''package leaf

import "github.com/google/wire"

type Clock interface{ Now() string }

type Real struct{}

func (*Real) Now() string { return "real" }

type Mock struct{}

func (*Mock) Now() string { return "mock" }

func NewReal() *Real { return &Real{} }

func NewMock() *Mock { return &Mock{} }

var Limit = %(limit)d

var Set = wire.NewSet(%(prov)s, wire.Bind(new(Clock), new(*%(impl)s)), wire.Value(Limit))
'''
MID = '''package mid

import (
	"github.com/google/wire"
	"%s/leaf"
)

type App struct {
	C leaf.Clock
	N int
}

func NewApp(c leaf.Clock, n int) App { return App{C: c, N: n} }

var AppSet = wire.NewSet(leaf.Set, NewApp)
''' % MOD
INJ = '''//go:build wireinject
// +build wireinject

package app

import (
	"github.com/google/wire"
	"%s/mid"
)

func Init() mid.App {
	panic(wire.Build(mid.AppSet))
}
''' % MOD
MAIN = 'package main\n\nimport (\n\t"fmt"\n\n\t"%s/app"\n)\n\nfunc main() {\n\ta := app.Init()\n\tfmt.Println(a.C.Now(), a.N)\n}\n' % MOD
STEPS = [({"prov": "NewReal", "impl": "Real", "limit": 1}, "real 1"), ({"prov": "NewMock", "impl": "Mock", "limit": 1}, "mock 1"),
         ({"prov": "NewMock", "impl": "Mock", "limit": 2}, "mock 2"), ({"prov": "NewReal", "impl": "Real", "limit": 2}, "real 2")]


def run_rewire(rep, tier):
    ws = Workspace()
    fails = []
    try:
        for d in ("leaf", "mid", "app", "cmd/run"):
            os.makedirs(ws.root + "/" + d)
        open(ws.root + "/mid/mid.go", "w").write(MID)
        open(ws.root + "/app/wire.go", "w").write(INJ)
        open(ws.root + "/app/app.go", "w").write("package app\n")
        open(ws.root + "/cmd/run/main.go", "w").write(MAIN)
        hist = []
        for n, (v, want) in enumerate(STEPS):
            open(ws.root + "/leaf/leaf.go", "w").write(LEAF % v)
            # the edit is later than everything written so far, as an editor's save would be
            t = time.time() + 2 * (n + 1)
            os.utime(ws.root + "/leaf/leaf.go", (t, t))
            rc, out, err = ws.wire(["gen", "./app"])
            hist.append("edit leaf (%s); wire gen ./app -> exit %d %s" % (v, rc, err.strip()[-120:]))
            rep.evaluations += 1
            rep.nontrivial.add("rewire-%d" % n)
            if rc != 0 or panicked(err):
                fails.append({"stream": "c02-rewire", "history": hist, "why": ["wire gen fails on a well-formed program: " + err.strip()[-300:]]})
                break
            rcr, outr, errr = run(["go", "run", "./cmd/run"], cwd=ws.root, env=dict(GOENV), timeout=300)
            got = outr.strip()
            if rcr != 0 or got != want:
                fails.append({"stream": "c02-rewire", "history": hist, "wire_gen.go": open(ws.root + "/app/wire_gen.go").read()[:1500],
                              "why": ["after the provider set two packages away was edited and wire gen ran again (exit 0), the injector "
                                      "still does not use the designated sources: program prints %r, the current sources say %r %s"
                                      % (got, want, errr.strip()[-200:])]})
                break
    finally:
        ws.close()
    return [], fails
