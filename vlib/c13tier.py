"""C13: value providers — every expression form of a package-level initialiser, written in the injector's
package or in a provider set of another package.  One package per expression."""
import os
import re

from .cmdtier import Workspace, panicked, MOD
from .common import GOENV, run

LIB = '''package lib

import "fmt"

type T struct {
	X int
	P *int
	h int
}

func (t T) unexp() int { return t.h }

type MyInt int
type F func() int
type I interface{ M() int }

func (t T) M() int { return t.X }

var Calls []string

func Fn() int      { Calls = append(Calls, "Fn"); return 7 }
func (t T) Meth() int { Calls = append(Calls, "Meth"); return 8 }

var FV F = func() int { Calls = append(Calls, "FV"); return 9 }
var Ch = func() chan int { c := make(chan int, 1<<16); for i := 0; i < 1<<16; i++ { c <- i }; return c }()

var (
	Num      = 5
	Str      = "hello"
	Arr      = [3]int{1, 2, 3}
	Sl       = []int{4, 5, 6}
	Mp       = map[string]int{"k": 3}
	Val      = T{X: 11}
	Ptr      = &T{X: 12}
	IfaceVar I = T{X: 13}
	Any      interface{} = T{X: 14}
	hidden   = 99
	Nested   = struct{ In T }{In: T{X: 15}}
)

const Const = 21

var _ = fmt.Sprint
'''

# (label, expression as written in package lib's scope (unqualified), Go type (unqualified), VExpr, verdict)
# verdict: "ok" | "complex" (too complex: call/receive/func literal) | "iface" (interface type) | "unexported" | "typeerr-ok"
N = lambda k, *cs: "( N %s %s )" % (k, " ".join(cs)) if cs else "( N %s )" % k
ID, LIT = N("Ident"), N("BasicLit")
FIXED = [
    ("lit-int", "42", "int", LIT, "ok"),
    ("lit-str", '"s"', "string", LIT, "ok"),
    ("arith", "1 + 2*3", "int", N("BinaryExpr", LIT, N("BinaryExpr", LIT, LIT)), "ok"),
    ("concat", 'Str + "!"', "string", N("BinaryExpr", ID, LIT), "ok"),
    ("neg", "-Num", "int", "( U 0 %s )" % ID, "ok"),
    ("not", "!(Num > 3)", "bool", "( U 0 %s )" % N("ParenExpr", N("BinaryExpr", ID, LIT)), "ok"),
    ("paren", "((Num))", "int", N("ParenExpr", N("ParenExpr", ID)), "ok"),
    ("struct-lit", "T{X: 1}", "T", N("CompositeLit", ID, N("KeyValueExpr", ID, LIT)), "ok"),
    ("addr-lit", "&T{X: 2}", "*T", "( U 0 %s )" % N("CompositeLit", ID, N("KeyValueExpr", ID, LIT)), "ok"),
    ("slice-lit", "[]int{1, 2}", "[]int", N("CompositeLit", N("ArrayType", ID), LIT, LIT), "ok"),
    ("array-lit", '[2]string{"a", "b"}', "[2]string", N("CompositeLit", N("ArrayType", LIT, ID), LIT, LIT), "ok"),
    ("map-lit", 'map[string]int{"a": 1}', "map[string]int", N("CompositeLit", N("MapType", ID, ID), N("KeyValueExpr", LIT, LIT)), "ok"),
    ("anon-struct", "struct{ A int }{A: 1}", "struct{ A int }",
     N("CompositeLit", N("StructType", N("FieldList", N("Field", ID, ID))), N("KeyValueExpr", ID, LIT)), "conservative"),
    ("nested-lit", "[]T{{X: 1}, {X: 2}}", "[]T", N("CompositeLit", N("ArrayType", ID), N("CompositeLit", N("KeyValueExpr", ID, LIT)),
                                                  N("CompositeLit", N("KeyValueExpr", ID, LIT))), "ok"),
    ("conv-named", "MyInt(3)", "MyInt", "( C t %s %s )" % (ID, LIT), "ok"),
    ("conv-float", "float64(Num)", "float64", "( C t %s %s )" % (ID, ID), "ok"),
    ("conv-bytes", '[]byte("x")', "[]byte", "( C t %s %s )" % (N("ArrayType", ID), LIT), "ok"),
    ("conv-ptr", "(*T)(nil)", "*T", "( C t %s %s )" % (N("ParenExpr", N("StarExpr", ID)), ID), "ok"),
    ("conv-func", "F(nil)", "F", "( C t %s %s )" % (ID, ID), "ok"),
    ("ident-var", "Val", "T", ID, "ok"),
    ("ident-ptr", "Ptr", "*T", ID, "ok"),
    ("ident-const", "Const", "int", ID, "ok"),
    ("selector", "Val.X", "int", N("SelectorExpr", ID, ID), "ok"),
    ("selector2", "Nested.In.X", "int", N("SelectorExpr", N("SelectorExpr", ID, ID), ID), "ok"),
    ("index-arr", "Arr[1]", "int", N("IndexExpr", ID, LIT), "ok"),
    ("index-map", 'Mp["k"]', "int", N("IndexExpr", ID, LIT), "ok"),
    ("slice-expr", "Sl[1:2]", "[]int", N("SliceExpr", ID, LIT, LIT), "ok"),
    # keys of map / array / slice literals are ordinary expressions (only struct literal keys are field names)
    ("map-key-ident", 'map[int]string{Const: "c", Num: "n"}', "map[int]string",
     N("CompositeLit", N("MapType", ID, ID), N("KeyValueExpr", ID, LIT), N("KeyValueExpr", ID, LIT)), "ok"),
    ("array-key-ident", '[...]string{Const: "x"}[Const]', "string",
     N("IndexExpr", N("CompositeLit", N("ArrayType", N("Ellipsis"), ID), N("KeyValueExpr", ID, LIT)), ID), "conservative"),
    ("slice-key-ident", '[]string{Const: "v"}', "[]string", N("CompositeLit", N("ArrayType", ID), N("KeyValueExpr", ID, LIT)), "ok"),
    ("map-key-struct", 'map[T]int{Val: 1, {X: 2}: 2}', "map[T]int",
     N("CompositeLit", N("MapType", ID, ID), N("KeyValueExpr", ID, LIT), N("KeyValueExpr", N("CompositeLit", N("KeyValueExpr", ID, LIT)), LIT)), "ok"),
    # full slice expressions: the capacity is part of the value
    ("slice3-expr", "Sl[0:1:1]", "[]int", N("SliceExpr", ID, LIT, LIT, LIT), "ok"),
    ("slice3-arr", "Arr[1:2:2]", "[]int", N("SliceExpr", ID, LIT, LIT, LIT), "ok"),
    ("slice3-conv", "[]int(Sl[:1:2])", "[]int", "( C t %s %s )" % (N("ArrayType", ID), N("SliceExpr", ID, LIT, LIT)), "ok"),
    ("deref", "*Ptr", "T", N("StarExpr", ID), "ok"),
    ("addr-var", "&Val", "*T", "( U 0 %s )" % ID, "ok"),
    ("addr-field", "&Val.X", "*int", "( U 0 %s )" % N("SelectorExpr", ID, ID), "ok"),
    ("type-assert", "Any.(T)", "T", N("TypeAssertExpr", ID, ID), "ok"),
    ("func-value", "Fn", "func() int", ID, "ok"),
    ("method-expr", "T.M", "func(T) int", N("SelectorExpr", ID, ID), "ok"),
    ("chan-type", "(chan int)(nil)", "chan int", "( C t %s %s )" % (N("ParenExpr", N("ChanType", ID)), ID), "ok"),
    ("func-type-conv", "(func() int)(nil)", "func() int", "( C t %s %s )" % (N("ParenExpr", N("FuncType", N("FieldList"), N("FieldList", N("Field", ID)))), ID), "conservative"),
    # rejected: would call / receive / too complex
    ("call-fn", "Fn()", "int", "( C s %s )" % ID, "complex"),
    ("call-method", "Val.Meth()", "int", "( C s %s )" % N("SelectorExpr", ID, ID), "complex"),
    ("call-named-func", "FV()", "int", "( C n %s )" % ID, "complex"),
    ("call-builtin", "len(Sl)", "int", "( C b %s %s )" % (ID, ID), "complex"),
    ("call-nested", "T{X: Fn()}", "T", N("CompositeLit", ID, N("KeyValueExpr", ID, "( C s %s )" % ID)), "complex"),
    ("call-in-conv", "MyInt(Fn())", "MyInt", "( C t %s %s )" % (ID, "( C s %s )" % ID), "complex"),
    ("receive", "<-Ch", "int", "( U 1 %s )" % ID, "complex"),
    ("receive-nested", "1 + <-Ch", "int", N("BinaryExpr", LIT, "( U 1 %s )" % ID), "complex"),
    ("func-lit", "func() int { return 1 }", "func() int", N("FuncLit", N("FuncType"), N("BlockStmt")), "complex"),
    ("new-call", "new(int)", "*int", "( C b %s %s )" % (ID, ID), "complex"),
    # rejected: interface-typed
    ("iface-var", "IfaceVar", "I", ID, "iface"),
    ("iface-conv", "I(Val)", "I", "( C t %s %s )" % (ID, ID), "iface"),
    ("iface-any", "Any", "interface{}", ID, "iface"),
    # accessibility (only differs when written in another package)
    ("unexported", "hidden", "int", ID, "unexported"),
    ("unexported-in-lit", "T{X: hidden}", "T", N("CompositeLit", ID, N("KeyValueExpr", ID, ID)), "unexported"),
    ("unexported-field-key", "T{X: 1, h: 2}", "T", N("CompositeLit", ID, N("KeyValueExpr", ID, LIT), N("KeyValueExpr", ID, LIT)), "unexported"),
    ("unexported-field-sel", "Val.h", "int", N("SelectorExpr", ID, ID), "unexported"),
    ("unexported-positional", "T{1, nil, 2}", "T", N("CompositeLit", ID, LIT, ID, LIT), "unexported"),
    ("unexported-positional-nested", "[]*T{{3, nil, 4}}", "[]*T", N("CompositeLit", N("ArrayType", N("StarExpr", ID)), N("CompositeLit", LIT, ID, LIT)), "unexported"),
    ("positional-exported-only", "struct{ In T }{T{X: 1}}", "struct{ In T }", N("CompositeLit", N("StructType", N("FieldList", N("Field", ID, ID))), N("CompositeLit", ID, N("KeyValueExpr", ID, LIT))), "conservative"),
    ("unexported-method-value", "Val.unexp", "func() int", N("SelectorExpr", ID, ID), "unexported"),
    ("unexported-method-expr", "T.unexp", "func(T) int", N("SelectorExpr", ID, ID), "unexported"),
]


# ---- random int-valued expressions: where in the tree the unsafe part sits must not matter -------------

def _leaf(rng, unsafe):
    if unsafe:
        return rng.choice([
            ("Fn()", "( C s %s )" % ID), ("<-Ch", "( U 1 %s )" % ID), ("len(Sl)", "( C b %s %s )" % (ID, ID)),
            ("FV()", "( C n %s )" % ID), ("Val.Meth()", "( C s %s )" % N("SelectorExpr", ID, ID)),
            ("func() int { return 1 }()", "( C s %s )" % N("FuncLit", N("FuncType"), N("BlockStmt"))),
            ("cap(Sl)", "( C b %s %s )" % (ID, ID)), ("Ptr.Meth()", "( C s %s )" % N("SelectorExpr", ID, ID))])
    return rng.choice([
        ("42", LIT), ("Num", ID), ("Const", ID), ("Val.X", N("SelectorExpr", ID, ID)), ("Arr[1]", N("IndexExpr", ID, LIT)),
        ('Mp["k"]', N("IndexExpr", ID, LIT)), ("Ptr.X", N("SelectorExpr", ID, ID)), ("Sl[2]", N("IndexExpr", ID, LIT)),
        ("Nested.In.X", N("SelectorExpr", N("SelectorExpr", ID, ID), ID))])


def _rand_expr(rng, depth, unsafe):
    """-> (go text, VExpr); `unsafe`: exactly one unsafe leaf somewhere below"""
    if depth == 0:
        return _leaf(rng, unsafe)
    form = rng.randrange(11)

    def two():
        # the unsafe part goes left or right; the other side is a safe expression that is itself a unary
        # expression or a conversion as often as not (a later safe sibling must not launder an earlier unsafe one)
        first = rng.random() < 0.5
        a = _rand_expr(rng, depth - 1, unsafe and first)
        b = _rand_expr(rng, depth - 1, unsafe and not first)
        return a, b
    if form == 0:
        t, v = _rand_expr(rng, depth - 1, unsafe)
        return "-" + ("(%s)" % t if t.startswith("-") else t), "( U 0 %s )" % (N("ParenExpr", v) if t.startswith("-") else v)
    if form == 1:
        t, v = _rand_expr(rng, depth - 1, unsafe)
        return "(%s)" % t, N("ParenExpr", v)
    if form == 2:
        (ta, va), (tb, vb) = two()
        return "%s %s %s" % (ta, rng.choice(["+", "*", "-", "|"]), tb), N("BinaryExpr", va, vb)
    if form == 3:
        t, v = _rand_expr(rng, depth - 1, unsafe)
        return "int(MyInt(%s))" % t, "( C t %s %s )" % (ID, "( C t %s %s )" % (ID, v))
    if form == 4:
        (ta, va), (tb, vb) = two()
        return "[]int{%s, %s}[%d]" % (ta, tb, rng.randrange(2)), N("IndexExpr", N("CompositeLit", N("ArrayType", ID), va, vb), LIT)
    if form == 5:
        t, v = _rand_expr(rng, depth - 1, unsafe)
        return "T{X: %s}.X" % t, N("SelectorExpr", N("CompositeLit", ID, N("KeyValueExpr", ID, v)), ID)
    if form == 6:
        (ta, va), (tb, vb) = two()
        return 'map[string]int{"a": %s, "b": %s}["a"]' % (ta, tb), N("IndexExpr", N("CompositeLit", N("MapType", ID, ID),
                                                                                  N("KeyValueExpr", LIT, va), N("KeyValueExpr", LIT, vb)), LIT)
    if form == 7:
        (ta, va), (tb, vb) = two()
        return "[2]int{%s, %s}[1]" % (ta, tb), N("IndexExpr", N("CompositeLit", N("ArrayType", LIT, ID), va, vb), LIT)
    if form == 8:
        t, v = _rand_expr(rng, depth - 1, unsafe)
        return "(&T{X: %s}).X" % t, N("SelectorExpr", N("ParenExpr", "( U 0 %s )" % N("CompositeLit", ID, N("KeyValueExpr", ID, v))), ID)
    if form == 9:
        (ta, va), (tb, vb) = two()
        # three siblings: unsafe one first or in the middle, a conversion / unary minus last
        tc, vc = rng.choice([("int(MyInt(5))", "( C t %s %s )" % (ID, "( C t %s %s )" % (ID, LIT))), ("-1", "( U 0 %s )" % LIT), ("^Num", "( U 0 %s )" % ID)])
        return "[]int{%s, %s, %s}[0]" % (ta, tb, tc), N("IndexExpr", N("CompositeLit", N("ArrayType", ID), va, vb, vc), LIT)
    t, v = _rand_expr(rng, depth - 1, unsafe)
    return "*(&[]int{%s}[0])" % t, N("StarExpr", N("ParenExpr", "( U 0 %s )" % N("IndexExpr", N("CompositeLit", N("ArrayType", ID), v), LIT)))


def random_cases(rng, n):
    out = []
    for k in range(n):
        unsafe = rng.random() < 0.6
        t, v = _rand_expr(rng, rng.choice([1, 2, 2, 3]), unsafe)
        out.append(("rand%d-%s" % (k, "unsafe" if unsafe else "safe"), t, "int", v, "complex" if unsafe else "ok"))
    return out


def qualify(expr, names):
    """spell a lib-scope expression from another package"""
    def rep(m):
        w = m.group(0)
        return "lib." + w if w in names else w
    # do not qualify field names after '.', nor keys of composite literals (X:)
    out, i = [], 0
    for m in re.finditer(r"[A-Za-z_]\w*", expr):
        out.append(expr[i:m.start()])
        w = m.group(0)
        prev = expr[:m.start()].rstrip()
        nxt = expr[m.end():].lstrip()
        is_field = prev.endswith(".") or (nxt.startswith(":") and not nxt.startswith(":=") and w in ("X", "P", "A", "In", "h"))
        out.append("lib." + w if (w in names and not is_field) else w)
        i = m.end()
    out.append(expr[i:])
    return "".join(out)


LIBNAMES = {"T", "MyInt", "F", "I", "Fn", "FV", "Ch", "Num", "Str", "Arr", "Sl", "Mp", "Val", "Ptr", "IfaceVar", "Any", "hidden", "Nested", "Const"}


def run_c13(rep, tier):
    from .e2e_check import model_replies
    import random
    from .common import seed
    CASES = FIXED + random_cases(random.Random(seed() * 7919 + 13), 70 if tier == "quick" else 600)
    ws = Workspace()
    dis, fails = [], []
    stats = {"cases": 0, "accepted": 0, "rejected": 0}
    try:
        os.makedirs(ws.root + "/lib")
        sets = "\n".join("var Set%d = wire.NewSet(wire.Value(%s))" % (k, c[1]) for k, c in enumerate(CASES))
        homes = "\n".join("var Home%d %s = %s" % (k, c[2], c[1]) for k, c in enumerate(CASES) if c[4] in ("ok", "unexported", "conservative"))
        open(ws.root + "/lib/lib.go", "w").write(LIB.replace('import "fmt"', 'import (\n\t"fmt"\n\n\t"github.com/google/wire"\n)') +
                                                 "\n" + sets + "\n\n" + homes + "\n")
        plan = []
        for k, (label, expr, typ, vx, verdict) in enumerate(CASES):
            for where in ("local", "foreign", "inlib"):
                if verdict in ("unexported",) and where == "local":
                    continue
                pkg = "v%d%s" % (k, where[0])
                d = ws.root + "/" + pkg
                os.makedirs(d)
                qt = qualify(typ, LIBNAMES)
                if where == "local":      # written in the injector's package, about lib's identifiers
                    build = "wire.Value(%s)" % qualify(expr, LIBNAMES)
                    res = qt
                elif where == "foreign":  # written in lib's provider set, used from here
                    build = "lib.Set%d" % k
                    res = qt
                else:                     # the injector lives in a package of its own but the set is local to it
                    build = "wire.Value(%s)" % qualify(expr, LIBNAMES)
                    res = qt
                if where == "inlib":
                    continue
                open(d + "/inj.go", "w").write(
                    "//go:build wireinject\n// +build wireinject\n\npackage %s\n\nimport (\n\t\"github.com/google/wire\"\n\t\"%s/lib\"\n)\n\n"
                    "var _ = lib.Num\n\nfunc Init() %s {\n\tpanic(wire.Build(%s))\n}\n" % (pkg, MOD, res, build))
                open(d + "/p.go", "w").write("package %s\n" % pkg)
                plan.append((pkg, k, where))
        # type-correct?
        rc, out, err = run(["go", "vet", "-tags", "wireinject", "./..."], cwd=ws.root, env=dict(GOENV), timeout=600)
        badpk = set(re.findall(r"(?m)^(?:\./)?(v\d+[lf])/[\w.]+\.go:\d+", out + err)) | set(re.findall(r"(?m)^# %s/(v\d+[lf])" % re.escape(MOD), out + err))
        if re.search(r"(?m)^(?:\./)?lib/", out + err):
            fails.append({"stream": "c13", "why": ["harness library does not type-check: " + (out + err)[-400:]]})
        reqs = ["value " + c[3] for c in CASES]
        model = model_replies(reqs)
        drivers = []
        plan = [x for x in plan if x[0] not in badpk]
        results = ws.wire_many([["gen", "./" + pkg] for pkg, _, _ in plan], timeout=60)
        for (pkg, k, where), (rc, out, err) in zip(plan, results):
            label, expr, typ, vx, verdict = CASES[k]
            stats["cases"] += 1
            rep.evaluations += 1
            m_ok = model[k].startswith("1") if k < len(model) else None
            want_ok = verdict == "ok" or (verdict == "unexported" and False)
            if verdict == "unexported":
                want_ok = False   # foreign use of an unexported identifier
            accepted = rc == 0
            stats["accepted" if accepted else "rejected"] += 1
            rep.nontrivial.add(label + where)
            if len(rep.coverage["samples"]) < 4:
                rep.sample({"expression": expr, "written": where, "accepted": accepted, "stderr": err.strip()[:160]})
            if panicked(err):
                fails.append({"stream": "c13", "why": ["wire panicked on wire.Value(%s): %s" % (expr, err[-300:])]})
                continue
            # correspondence with the whitelist model (the other rejection reasons are type-level)
            if verdict in ("ok", "complex", "conservative") and m_ok is not None and m_ok != accepted:
                dis.append({"stream": "c13", "request": reqs[k], "impl": "accepted" if accepted else "rejected: " + err.strip()[:200],
                            "model": model[k], "expression": expr, "written": where})
            # direct oracle
            if verdict == "conservative":
                # safe to evaluate, but the whitelist has no entry for field lists: either answer satisfies the property
                if accepted:
                    drivers.append((pkg, k))
                continue
            if accepted and not want_ok:
                why = {"complex": "would call a function or receive from a channel when evaluated",
                       "iface": "is of interface type", "unexported": "mentions an identifier the injector's package cannot access"}[verdict]
                fails.append({"stream": "c13", "why": ["wire.Value(%s) written %s was accepted although it %s" % (expr, where, why)], "expression": expr})
            if not accepted and want_ok:
                fails.append({"stream": "c13", "why": ["wire.Value(%s) written %s was rejected: %s" % (expr, where, err.strip()[:300])], "expression": expr})
            if not accepted:
                want_msg = {"complex": "too complex", "iface": "may not be an interface value", "unexported": "unexported"}.get(verdict)
                if want_msg and want_msg not in err:
                    fails.append({"stream": "c13", "why": ["wire.Value(%s) rejected with an unexpected diagnostic: %s" % (expr, err.strip()[:300])]})
            if accepted:
                drivers.append((pkg, k))
        # run-time: the injector returns exactly the value of the written expression, the same one on every call
        if drivers:
            os.makedirs(ws.root + "/cmd/drv")
            L = ["package main", "", "import (", '\t"fmt"', '\t"reflect"', '\t"%s/lib"' % MOD]
            L += ['\t"%s/%s"' % (MOD, p) for p, _ in drivers]
            L += [")", "", "func same(a, b interface{}) bool {", "\tva, vb := reflect.ValueOf(a), reflect.ValueOf(b)",
                  "\tswitch va.Kind() {", "\tcase reflect.Ptr, reflect.Map, reflect.Chan, reflect.Slice, reflect.Func, reflect.UnsafePointer:",
                  "\t\tif va.Kind() == reflect.Slice && (va.Len() != vb.Len() || va.Cap() != vb.Cap()) { return false }",
                  "\t\tif va.Kind() == reflect.Slice && va.Len() == 0 { return vb.Len() == 0 }",
                  "\t\treturn va.Pointer() == vb.Pointer()", "\t}", "\tif va.Kind() == reflect.Func { return true }",
                  "\treturn reflect.DeepEqual(a, b)", "}", "",
                  "func capOK(a, b interface{}) bool {", "\tva, vb := reflect.ValueOf(a), reflect.ValueOf(b)",
                  "\tif va.Kind() == reflect.Slice { return va.Len() == vb.Len() && va.Cap() == vb.Cap() }", "\treturn true", "}", "",
                  "func main() {", "\tlib.Calls = nil"]
            for p, k in drivers:
                L.append('\t{ a, b := %s.Init(), %s.Init(); fmt.Println("R %s", same(a, b), (same(a, lib.Home%d) || reflect.DeepEqual(a, lib.Home%d)) && capOK(a, lib.Home%d)) }' % (p, p, p, k, k, k))
            L += ['\tfmt.Println("CALLS", lib.Calls)', "}"]
            open(ws.root + "/cmd/drv/main.go", "w").write("\n".join(L) + "\n")
            rc, out, err = run(["go", "run", "./cmd/drv"], cwd=ws.root, env=dict(GOENV), timeout=300)
            if rc != 0:
                fails.append({"stream": "c13", "why": ["accepted value programs do not build/run: " + (out + err)[-600:]]})
            for line in out.split("\n"):
                m = re.match(r"R (\w+) (\w+) (\w+)", line)
                if m:
                    pkg = m.group(1)
                    k = dict(drivers)[pkg]
                    if m.group(2) != "true":
                        fails.append({"stream": "c13", "why": ["two calls of the injector observe different values for wire.Value(%s)" % CASES[k][1]]})
                    if m.group(3) != "true":
                        fails.append({"stream": "c13", "why": ["injector value differs from the expression evaluated in its home package: wire.Value(%s)" % CASES[k][1]]})
                if line.startswith("CALLS") and line.strip() != "CALLS []":
                    fails.append({"stream": "c13", "why": ["a function ran during initialisation or injection: " + line]})
    finally:
        ws.close()
    rep.coverage["c13"] = stats
    return dis, fails


# ---- several value providers of one type in one package: each injector gets the value *it* wrote ---------------

PAIRS = [("lib.T", ["lib.T{X: 1}", "lib.T{X: 2}", "lib.T{X: 1, P: nil}"]),
         ("*lib.T", ["&lib.T{X: 3}", "&lib.T{X: 4}"]),
         ("[]int", ["[]int{1}", "[]int{2}", "[]int{1, 2}"]),
         ("map[string]int", ['map[string]int{"a": 1}', 'map[string]int{"a": 2}']),
         ("int", ["1 + 2", "1 + 3", "lib.Num", "lib2.Num"]),
         ("[2]string", ['[2]string{"a", "b"}', '[2]string{"b", "a"}']),
         ("lib.MyInt", ["lib.MyInt(1)", "lib.MyInt(2)"]),
         ("[]lib.T", ["[]lib.T{{X: 1}, {X: 2}}", "[]lib.T{{X: 2}, {X: 1}}"])]


def run_pairs(rep, tier):
    ws = Workspace()
    fails = []
    try:
        os.makedirs(ws.root + "/lib")
        os.makedirs(ws.root + "/lib2")
        os.makedirs(ws.root + "/pairs")
        os.makedirs(ws.root + "/cmd/drv2")
        open(ws.root + "/lib/lib.go", "w").write(LIB.replace('import "fmt"', 'import (\n\t"fmt"\n\n\t"github.com/google/wire"\n)')
                                                 + "\nvar Default = \"from lib\"\n\nvar SetDefault = wire.NewSet(wire.Value(Default))\n")
        open(ws.root + "/lib2/lib2.go", "w").write("package lib2\n\nimport \"github.com/google/wire\"\n\nvar Num = 77\n\nvar Default = \"from lib2\"\n\n"
                                                   "var SetDefault = wire.NewSet(wire.Value(Default))\n\nvar SetNum = wire.NewSet(wire.Value(Num + 1))\n")
        inj, home, calls = [], [], []
        for gi, (typ, exprs) in enumerate(PAIRS):
            for ei, e in enumerate(exprs):
                nm = "V%d_%d" % (gi, ei)
                inj.append("func %s() %s {\n\tpanic(wire.Build(wire.Value(%s)))\n}\n" % (nm, typ, e))
                home.append("var Home%s %s = %s" % (nm, typ, e))
                calls.append((nm, e))
        # the same expression text in the sets of two packages
        inj.append("func VS_0() string {\n\tpanic(wire.Build(lib.SetDefault))\n}\n")
        inj.append("func VS_1() string {\n\tpanic(wire.Build(lib2.SetDefault))\n}\n")
        home += ["var HomeVS_0 = lib.Default", "var HomeVS_1 = lib2.Default"]
        calls += [("VS_0", "Default (package lib)"), ("VS_1", "Default (package lib2)")]
        # several values written in different packages meet in one injector; the injector's package has identifiers of the same
        # names (a value copied without its qualifier would silently denote them)
        for k, (order, build) in enumerate([("a string, b int, c Label", 'lib.SetDefault, lib2.SetNum, wire.Value(Label("x"))'),
                                            ("c Label, b int, a string", 'wire.Value(Label("x")), lib2.SetNum, lib.SetDefault'),
                                            ("b int, c Label, a string", 'lib2.SetNum, lib.SetDefault, wire.Value(Label(Default))')]):
            home.append("func NewMix%d(%s) Mix { return Mix{A: a, B: b, C: c} }" % (k, order))
            inj.append("func VM_%d() Mix {\n\tpanic(wire.Build(%s, NewMix%d))\n}\n" % (k, build, k))
            home.append("var HomeVM_%d = Mix{A: lib.Default, B: lib2.Num + 1, C: %s}" % (k, 'Label(Default)' if "Label(Default)" in build else 'Label("x")'))
            calls.append(("VM_%d" % k, "values of lib, lib2 and the injector's package in one injector: " + build))
        home += ["type Label string", "type Mix struct {\n\tA string\n\tB int\n\tC Label\n}", 'var Default = "decoy of package pairs"', "var Num = -1"]
        imports = 'import (\n\t"github.com/google/wire"\n\t"%s/lib"\n\t"%s/lib2"\n)\n' % (MOD, MOD)
        open(ws.root + "/pairs/wire.go", "w").write("//go:build wireinject\n// +build wireinject\n\npackage pairs\n\n" + imports + "\n" + "\n".join(inj))
        open(ws.root + "/pairs/home.go", "w").write("package pairs\n\nimport (\n\t\"%s/lib\"\n\t\"%s/lib2\"\n)\n\n" % (MOD, MOD) + "\n".join(home) + "\n")
        L = ["package main", "", "import (", '\t"fmt"', '\t"reflect"', '\t"%s/pairs"' % MOD, ")", "", "func main() {"]
        for nm, _ in calls:
            L.append('\tfmt.Println("R %s", reflect.DeepEqual(pairs.%s(), pairs.Home%s), fmt.Sprint(pairs.%s()), fmt.Sprint(pairs.Home%s))' % (nm, nm, nm, nm, nm))
        L.append("}")
        open(ws.root + "/cmd/drv2/main.go", "w").write("\n".join(L) + "\n")
        rc, out, err = ws.wire(["gen", "./pairs"])
        rep.evaluations += len(calls)
        if rc != 0 or panicked(err):
            fails.append({"stream": "c13-pairs", "why": ["wire gen fails on a package with several value providers of one type: " + err.strip()[-400:]]})
            return [], fails
        rc, out, err = run(["go", "run", "./cmd/drv2"], cwd=ws.root, env=dict(GOENV), timeout=300)
        if rc != 0:
            fails.append({"stream": "c13-pairs", "why": ["the package does not build/run: " + (out + err)[-500:]]})
            return [], fails
        exprs = dict(calls)
        for line in out.split("\n"):
            m = re.match(r"R (\w+) (\w+) (.*)$", line)
            if m:
                rep.nontrivial.add("pair:" + m.group(1))
                if m.group(2) != "true":
                    fails.append({"stream": "c13-pairs", "injector": m.group(1), "expression": exprs[m.group(1)],
                                  "wire_gen.go": open(ws.root + "/pairs/wire_gen.go").read()[:3000],
                                  "why": ["injector %s returns a value other than its own expression wire.Value(%s): got / want = %s"
                                          % (m.group(1), exprs[m.group(1)], m.group(3)[:200])]})
    finally:
        ws.close()
    return [], fails
