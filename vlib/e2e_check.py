"""e2e evaluation of a batch of generated programs: canonical replies, model replies, runtime oracles."""
import os
import re

from . import e2e_gen as G, e2e_run as R, planner
from .common import WIREMODEL, run, log


# ---- canonical error tokens from wire's stderr -------------------------------------------------

RE_POS = re.compile(r"^(?:[^\s:]+\.go:\d+:\d+: )+")
RE_INJ = re.compile(r"^inject (\w+): ")


class UnitIndex:
    """reverse maps for one unit"""

    def __init__(self, prog, u):
        self.prog, self.u = prog, u
        for i in range(len(u.structs)):
            for k in "vps":
                u.tid((k, i))
        for j in range(len(u.ifaces)):
            u.tid(("i", j))
        self.by_str = {G.type_string(u, td): n for td, n in u.tids.items()}
        self.item_by_id = {it["id"]: it for it in u.items}

    def tid_of(self, s):
        return self.by_str.get(s.strip(), 999999)


def unit_of_message(prog, msg):
    """which unit of the program a diagnostic talks about (by the names it mentions)"""
    m = re.search(r"\bInit(\d+b?)\b", msg)
    if m:
        return m.group(1)          # injector key: "3" or "3b" (twin)
    for u in prog.units:
        for st in u.structs:
            if "%s.%s" % (prog.path(st["pkg"]), st["name"]) in msg:
                return str(u.uid) + "?"
        for d in u.ifaces:
            if "%s.%s" % (prog.path(d["pkg"]), d["name"]) in msg:
                return str(u.uid) + "?"
    m = re.search(r"\bProv(\d+)\b", msg)
    if m:
        return str(int(m.group(1)) // 1000) + "?"
    m = re.search(r"\bSet(\d+)\b", msg)
    if m:
        return str(int(m.group(1)) // 100) + "?"
    return None


def unit_key(u):
    return u.inj["name"][len("Init"):]


def classify(ix, msg):
    """-> canonical token (same vocabulary as the unit tier)"""
    body = RE_POS.sub("", msg)
    body = RE_INJ.sub("", body)
    body = RE_POS.sub("", body)
    u = ix.u
    m = re.match(r"(?:\S+ has )?multiple bindings for (.*)\ncurrent:", body)
    if m:
        return "multi:%d" % ix.tid_of(m.group(1))
    m = re.match(r'wire\.Bind of concrete type "(.*)" to interface "(.*)", but .* does not include a provider for', body)
    if m:
        return "bindmissing:%d:%d" % (ix.tid_of(m.group(2)), ix.tid_of(m.group(1)))
    if body.startswith("cycle for "):
        tr = []
        for l in body.split("\n")[1:]:
            l = l.strip()
            if l.endswith(" ->"):
                l = l[:-3]
            k = l.find(" (")
            if k >= 0:
                l = l[:k]
            tr.append(ix.tid_of(l))
        return "cycle:" + ",".join(str(x) for x in tr)
    m = re.match(r"no provider found for ([^\n]*?)(, output of injector)?(?:\n|$)", body)
    if m:
        up = [ix.tid_of(x) for x in re.findall(r"\nneeded by (.*?) in ", body)]
        return "noprov:%d:%s" % (ix.tid_of(m.group(1)), ",".join(str(x) for x in up))
    if body.strip() == "unused provider set":
        return "unusedset:?"          # a set written in place has no name to print
    m = re.match(r"unused (provider set|provider|value of type|interface binding to type|field) (.*)$", body, re.S)
    if m:
        kind, arg = m.group(1), m.group(2).strip()
        if kind == "provider set":
            return "unusedset:" + arg.strip('"').replace("Set", "")
        if kind == "provider":
            full = arg.strip('"')
            name = full.split(".")[-1]
            for it in u.items:     # provider functions may carry adversarial names
                if it["kind"] == "func" and it.get("fn", "Prov%d" % it["id"]) == name and \
                        full == "%s.%s" % (ix.prog.pkgmap[it["pkg"]]["name"], name):
                    return "unusedprov:%d" % it["id"]
            if name.startswith("Prov"):
                return "unusedprov:" + name[4:]
            for it in u.items:     # struct provider: named after the struct
                if it["kind"] == "struct" and u.structs[it["struct"]]["name"] == name:
                    return "unusedprov:%d" % it["id"]
        if kind == "value of type":
            t = ix.tid_of(arg)
            for it in u.items:
                if it["kind"] in ("value", "ivalue") and u.tid(it["outs"][0]) == t:
                    return "unusedval:%d" % it["id"]
        if kind == "interface binding to type":
            t = ix.tid_of(arg)
            for it in u.items:
                if it["kind"] == "bind" and u.tid(it["outs"][0]) == t:
                    return "unusedbnd:%d" % it["id"]
        if kind == "field":
            mm = re.match(r'"(.*)"\.(\w+)$', arg)
            if mm:
                pt = ix.tid_of(mm.group(1))
                for it in u.items:
                    if it["kind"] == "field" and u.tid(it["parent"]) == pt and it["fname"] == mm.group(2):
                        return "unusedfld:%d" % it["id"]
    m = re.match(r"provider for (.*) can't be used: \S+ is not exported by package", body)
    if m:
        return "unexported:%d" % ix.tid_of(m.group(1))
    m = re.match(r"provider for (.*) returns cleanup but injection does not return cleanup function", body)
    if m:
        return "needcleanup:%d" % ix.tid_of(m.group(1))
    m = re.match(r"provider for (.*) returns error but injection not allowed to fail", body)
    if m:
        return "neederr:%d" % ix.tid_of(m.group(1))
    return "other:" + re.sub(r"\s+", "_", body[:60])


# ---- canonical call list from the IR of wire_gen.go ------------------------------------------------

def strip_q(name):
    return name.split(".")[-1]


def ir_calls(ix, fn, irfile):
    """-> (tokens, problems)"""
    u = ix.u
    inj = u.inj
    var_idx, var_type = {}, {}
    probs = []
    pnames = [p.split(" ")[0] for p in fn["params"] or []]
    if len(pnames) != len(inj["args"]):
        probs.append("parameter count %d != %d" % (len(pnames), len(inj["args"])))
    for n, nm in enumerate(pnames):
        var_idx[nm] = n
        if n < len(inj["args"]):
            var_type[nm] = inj["args"][n]
    ng = len(pnames)
    toks = []
    body = fn["body"] or []
    pos = 0
    # qualifier used in the generated file -> logical package
    alias = {}
    for imp in irfile.get("imports") or []:
        ws = imp.split(" ")
        path = ws[-1].strip('"')
        for lp in ix.prog.pkgs:
            if ix.prog.path(lp) == path:
                alias[ws[0] if len(ws) == 2 else ix.prog.pkgmap[lp]["name"]] = lp

    def struct_of(text):
        q, _, nm = text.rpartition(".")
        lp = alias.get(q) if q else u.inj["pkg"]
        for i, st in enumerate(u.structs):
            if st["name"] == nm and st["pkg"] == lp:
                return i
        return None
    for k, st in enumerate(body):
        kind = st["kind"]
        if kind in ("iferr", "return"):
            continue
        if kind == "other":
            probs.append("unexpected statement: " + st.get("text", "")[:80])
            continue
        lhs = st["lhs"]
        args, ins, flags, out, src = [], [], [0, 0, 0, 0], None, -1
        if kind == "call":
            q, _, name = st["fn"].rpartition(".")
            lp = alias.get(q) if q else u.inj["pkg"]
            it = next((x for x in u.items if x["kind"] == "func" and x["pkg"] == lp and x.get("fn", "Prov%d" % x["id"]) == name), None)
            if it is None:
                probs.append("call of unknown function " + st["fn"])
                continue
            out, src = it["outs"][0], it["id"]
            args = [var_idx.get(a, 999) for a in st.get("args") or []]
            ins = [u.tid(d) for d in it["deps"]]
            nxt = body[k + 1] if k + 1 < len(body) else None
            has_err = bool(nxt and nxt["kind"] == "iferr" and nxt["cond"].split(" ")[0] == lhs[-1] and len(lhs) > 1)
            has_cl = len(lhs) == 3 or (len(lhs) == 2 and not has_err)
            flags = [int(bool(st.get("ellipsis"))), int(has_cl), int(has_err), 0]
            tk = "func"
        elif kind == "struct":
            i = struct_of(st["type"])
            it = next((x for x in u.items if x["kind"] == "struct" and x["struct"] == i), None)
            if it is None:
                probs.append("struct literal of unknown provider " + st["type"])
                continue
            out, src = (("p", i) if st.get("addr") else ("v", i)), it["id"]
            fl = [f.split(":", 1) for f in st.get("fields") or []]
            args = [var_idx.get(v, 999) for _, v in fl]
            want = [f for f, _ in u.structs[i]["fields"]]
            if [f for f, _ in fl] != want:
                probs.append("struct %s literal sets fields %s, expected %s" % (st["type"], [f for f, _ in fl], want))
            ins = [u.tid(d) for d in it["deps"]]
            tk = "struct"
        elif kind == "value":
            txt = irfile["vars"].get(st["var"], "")
            m = re.search(r"ID:\s*(\d+)", txt)
            it = ix.item_by_id.get(int(m.group(1)) - 50000) if m else None
            if it is None:
                probs.append("value variable %s with unknown initialiser %r" % (st["var"], txt[:60]))
                continue
            out, src = it["outs"][0], it["id"]
            tk = "value"
        else:   # field
            base = st["base"]
            pt = var_type.get(base)
            it = next((x for x in u.items if x["kind"] == "field" and x["parent"] == pt and x["fname"] == st["sel"]), None)
            if it is None:
                probs.append("selection %s.%s matches no field provider" % (base, st["sel"]))
                continue
            if st.get("addr"):
                if len(it["outs"]) < 2:
                    probs.append("address of field %s taken but no pointer output declared" % st["sel"])
                    continue
                out = it["outs"][1]
            else:
                out = it["outs"][0]
            src = it["id"]
            args = [var_idx.get(base, 999)]
            flags = [0, 0, 0, int(bool(st.get("addr")))]
            tk = "field"
        if 999 in args:
            probs.append("an argument of the generated %s for %s is not one of the injector's parameters or of the values built before it "
                         "(statement: %s)" % (tk, lhs[0], {k_: v_ for k_, v_ in st.items() if k_ in ("fn", "args", "fields", "type", "base", "sel")}))
        var_idx[lhs[0]] = ng + pos
        var_type[lhs[0]] = out
        pos += 1
        toks.append("%s:%d:%d:[%s]:[%s]:%d%d%d%d" % (tk, u.tid(out), src, ",".join(map(str, args)),
                                                     ",".join(map(str, ins)), *flags))
    # the returned variable
    ret = [s for s in body if s["kind"] == "return"]
    if len(ret) != 1:
        probs.append("expected exactly one top-level return")
    else:
        rv = ret[0]["ret"][0] if ret[0].get("ret") else None
        last = ng + pos - 1
        if pos > 0 and var_idx.get(rv) != last:
            probs.append("returns %s, not the last constructed value" % rv)
    return toks, probs


# ---- model replies --------------------------------------------------------------------------------

def model_replies(lines):
    rc, out, err = run([WIREMODEL], inp="\n".join(lines) + "\n", timeout=600)
    res = out.split("\n")
    if res and res[-1] == "":
        res.pop()
    return res


def root_causes(sets_reply):
    toks = set()
    for part in sets_reply.split(" | "):
        m = re.match(r"set \d+ err (.*)$", part.strip())
        if m:
            toks |= {t for t in m.group(1).split() if not t.startswith("importfailed")}
    return toks


def printed_name(ix, it):
    return "%s.%s" % (ix.prog.pkgmap[it["pkg"]]["name"], it.get("fn", "Prov%d" % it["id"]))


def ambiguous_funcs(ix):
    """ids of provider functions whose printed name (package *name* + function name) another provider function of
    the unit shares: the unused-provider diagnostic cannot tell them apart"""
    by = {}
    for it in ix.u.items:
        if it["kind"] == "func" and it.get("pkg"):
            by.setdefault(printed_name(ix, it), []).append(it["id"])
    return {i: n for n, ids in by.items() if len(ids) > 1 for i in ids}


def norm_unused(ix, reply):
    """replace unusedprov:<id> by unusedprov:?<printed name> where the diagnostic is ambiguous"""
    amb = ambiguous_funcs(ix)
    inline = {str(t["id"]) for t in ix.u.sets if t.get("inline")}
    if not amb and not inline:
        return reply
    out = []
    for w in reply.split():
        if w.startswith("unusedprov:") and w[11:].isdigit() and int(w[11:]) in amb:
            w = "unusedprov:?" + amb[int(w[11:])]
        if w.startswith("unusedset:") and w[10:] in inline:
            w = "unusedset:?"
        out.append(w)
    return " ".join(out)


def norm_err(reply):
    """errors compared as sets at this tier (wire repeats the diagnostics of a nested set once per
    path that reaches it)"""
    ws = reply.split()
    if ws and ws[0] == "err":
        return "err " + " ".join(sorted(set(ws[1:])))
    return reply


# ---- desc grammar -----------------------------------------------------------------------------------

def parse_desc(s):
    """'&S1_0#12{F0=S1_1#3{};G=nil}' -> dict(amp, name, id, fields{}) ; 'nil' ; '[a,b]' -> list"""
    pos = [0]

    def val():
        if s.startswith("nil", pos[0]):
            pos[0] += 3
            return "nil"
        if s[pos[0]] == "[":
            pos[0] += 1
            out = []
            while s[pos[0]] != "]":
                out.append(val())
                if s[pos[0]] == ",":
                    pos[0] += 1
            pos[0] += 1
            return out
        amp = 0
        while s[pos[0]] == "&":
            amp += 1
            pos[0] += 1
        m = re.compile(r"(\w+)#(-?\d+)\{").match(s, pos[0])
        if not m:
            raise ValueError("bad desc at %d: %s" % (pos[0], s))
        pos[0] = m.end()
        fields = {}
        while s[pos[0]] != "}":
            m2 = re.compile(r"(\w+)=").match(s, pos[0])
            pos[0] = m2.end()
            fields[m2.group(1)] = val()
            if s[pos[0]] == ";":
                pos[0] += 1
        pos[0] += 1
        return {"amp": amp, "name": m.group(1), "id": int(m.group(2)), "fields": fields}
    v = val()
    if pos[0] != len(s):
        raise ValueError("trailing desc: " + s)
    return v


def unparse_desc(d):
    if d == "nil":
        return "nil"
    if isinstance(d, list):
        return "[" + ",".join(unparse_desc(x) for x in d) + "]"
    return "&" * d["amp"] + "%s#%d{%s}" % (d["name"], d["id"], ";".join("%s=%s" % (k, unparse_desc(v)) for k, v in d["fields"].items()))


def split_args(s):
    """split 'a | b | c' (descs contain no ' | ')"""
    return [x for x in s.split(" | ")] if s else []


# ---- runtime oracle ------------------------------------------------------------------------------------

class RunOracle:
    def __init__(self, ix):
        self.ix, self.u = ix, ix.u
        u = self.u
        self.src = u.src
        self.func_by_name = {"%s.Prov%d" % (it["pkg"], it["id"]): it for it in u.items if it["kind"] == "func"}

    def needed_funcs(self):
        u = self.u
        seen, todo, out = set(), [u.inj["out"]], []
        while todo:
            t = todo.pop()
            if t in seen or t not in self.src:
                continue
            seen.add(t)
            it = u.items[self.src[t]]
            if it["kind"] == "func":
                out.append("%s.Prov%d" % (it["pkg"], it["id"]))
            todo.extend(it["deps"])
        return set(out)

    def arg_literal(self, n, td):
        u = self.u
        if td[0] == "s":
            return "[%s,%s]" % (G.desc_lit(u, ("v", td[1]), 9000 + n), G.desc_lit(u, ("v", td[1]), 9100 + n))
        return G.desc_lit(u, td, 9000 + n)

    def expected(self, td, env, bad):
        """desc of the value the designated source of td yields in this run"""
        u = self.u
        if td in env:
            return env[td]
        if td not in self.src:
            bad.append("type %s has no source" % (td,))
            return "?"
        it = u.items[self.src[td]]
        k = it["kind"]
        if k == "arg":
            n = u.inj["args"].index(td)
            r = self.arg_literal(n, td)
        elif k in ("value", "ivalue"):
            r = G.desc_lit(u, it.get("conc", td), 50000 + it["id"])
        elif k == "struct":
            st = u.structs[it["struct"]]
            fs = ";".join("%s=%s" % (f, self.expected(d, env, bad)) for f, d in st["fields"])
            # the value and pointer forms are separate constructions
            r = ("&" if td[0] == "p" else "") + "%s#0{%s}" % (st["name"], fs)
        elif k == "field":
            pd = self.expected(it["parent"], env, bad)
            try:
                p = parse_desc(pd)
                f = p["fields"].get(it["fname"]) if isinstance(p, dict) else None
            except Exception:
                f = None
            if f is None:
                bad.append("parent %s has no field %s in its description %s" % (it["parent"], it["fname"], pd))
                return "?"
            r = unparse_desc(f)
            if len(it["outs"]) == 2 and td == it["outs"][1]:
                r = "&" + r
        elif k == "bind":
            r = self.expected(it["conc"], env, bad)
        else:
            bad.append("provider for %s used before it was called" % (td,))
            return "?"
        if k != "struct":
            env[td] = r
        return r

    def check_run(self, rn):
        """-> list of (prop, message)"""
        u, inj = self.u, self.u.inj
        bad = []
        needed = self.needed_funcs()
        failing = [p for p in rn["plan"] if p in needed]
        env = {}
        for n, td in enumerate(inj["args"]):
            env[td] = self.arg_literal(n, td)
        called, cleanups, made_pending = [], [], None
        failed_at = None
        lines = rn["trace"]
        addr_of = {}
        tail = []
        for ln in lines:
            if failed_at is not None:
                tail.append(ln)
                continue
            m = re.match(r"call (\S+)\((.*)\) -> (FAIL|#(\d+))$", ln)
            if m:
                name = m.group(1)
                it = self.func_by_name.get(name)
                if it is None:
                    bad.append(("C02", "unknown provider called: " + name))
                    continue
                if name in [c[0] for c in called]:
                    bad.append(("C02", "provider %s called twice in one injector call" % name))
                if name not in needed:
                    bad.append(("C02", "provider %s called although the result does not depend on it" % name))
                obs = split_args(m.group(2))
                sub = []
                exp = [self.expected(d, env, sub) for d in it["deps"]]
                for x in sub:
                    bad.append(("C02", x))
                if obs != exp:
                    prop = "C12" if any(u.items[self.src[d]]["kind"] in ("struct", "field") for d in it["deps"] if d in self.src) else \
                        ("C11" if any(d[0] == "i" for d in it["deps"]) else ("C13" if any(
                            u.items[self.src[d]]["kind"] in ("value", "ivalue") for d in it["deps"] if d in self.src) else "C02"))
                    bad.append((prop, "provider %s received %s, expected %s (the values of the designated sources)" % (name, obs, exp)))
                if m.group(3) == "FAIL":
                    failed_at = name
                    continue
                called.append((name, int(m.group(4)), it))
                made_pending = it
                continue
            m = re.match(r"made (.*)$", ln)
            if m and made_pending is not None:
                env[made_pending["outs"][0]] = m.group(1)
                made_pending = None
                continue
            m = re.match(r"addr (\w+)\.(\w+) (\S+)$", ln)
            if m:
                addr_of[(m.group(1), m.group(2))] = m.group(3)
                continue
            m = re.match(r"argaddr (\d+) (\S+)$", ln)
            if m and made_pending is not None:
                d = made_pending["deps"][int(m.group(1))]
                sit = u.items[self.src[d]] if d in self.src else None
                if sit and sit["kind"] == "field" and len(sit["outs"]) == 2 and d == sit["outs"][1]:
                    pst = u.structs[sit["parent"][1]]["name"]
                    want = addr_of.get((pst, sit["fname"]))
                    if want is not None and want != m.group(2):
                        bad.append(("C12", "pointer-to-field %s.%s does not alias the field inside the provided struct" % (pst, sit["fname"])))
                continue
            if ln.startswith("cleanup ") or ln.startswith("BADCLEANUP"):
                bad.append(("C04", "cleanup ran before the injector returned successfully: " + ln))
                continue
            bad.append(("C02", "unexpected trace line: " + ln))
        want_cleanups = ["cleanup %s #%d" % (n, i) for n, i, it in reversed(called) if it["cleanup"]]
        if failing:
            if failed_at is None:
                bad.append(("C03", "plan fails %s but no provider failed (trace %s)" % (failing, lines[-3:])))
                return bad
            if tail != want_cleanups:
                bad.append(("C03", "after the failure of %s: observed %s, expected exactly the cleanups %s" % (failed_at, tail, want_cleanups)))
            k, i = inj["out"]
            zero = G.zero_desc(u, inj["out"])
            if rn["result"] != zero:
                bad.append(("C03", "result after failure is %s, expected the zero value %s" % (rn["result"], zero)))
            if rn["err"] is None or "same= true" not in rn["err"]:
                bad.append(("C03", "returned error is not the failing provider's error value: %s" % rn["err"]))
            if inj["cleanup"] and rn["cleanup"] != "nil":
                bad.append(("C03", "cleanup result after failure is not nil"))
            return bad
        if failed_at is not None:
            bad.append(("C03", "a provider failed although the plan fails none that is needed"))
            return bad
        # success run
        if set(c[0] for c in called) != needed:
            bad.append(("C02", "called providers %s, needed %s" % (sorted(c[0] for c in called), sorted(needed))))
        sub = []
        exp = self.expected(inj["out"], env, sub)
        for x in sub:
            bad.append(("C02", x))
        if rn["result"] != exp:
            bad.append(("C02", "injector returned %s, expected %s" % (rn["result"], exp)))
            if inj["out"][0] == "i":
                # the result is itself a dependency on an interface: it must be the value supplied for the bound type
                bad.append(("C11", "injector result of interface type is %s, expected %s (the value of the bound source)" % (rn["result"], exp)))
        if inj["err"] and rn["err"] != "nil":
            bad.append(("C03", "error on a successful run: %s" % rn["err"]))
        if inj["cleanup"]:
            if rn["cleanup"] != "called":
                bad.append(("C04", "successful injector returned a nil cleanup"))
            if rn["ctrace"] != want_cleanups:
                bad.append(("C04", "aggregated cleanup ran %s, expected %s" % (rn["ctrace"], want_cleanups)))
        return bad


# ---- emission structure (C03/C04 projection) ---------------------------------------------------------

def ir_emit(ix, fn):
    """-> (canonical emit reply from the IR, direct-oracle problems [(prop, msg)])"""
    u, inj = ix.u, ix.u.inj
    body = fn["body"] or []
    probs = []
    cl_pos, err_of = {}, {}
    pos = 0
    toks = []
    defined = []
    zero_ok = {"v": lambda s: s.endswith("{}"), "p": lambda s: s == "nil", "i": lambda s: s == "nil", "s": lambda s: s == "nil"}
    for k, st in enumerate(body):
        if st["kind"] in ("call", "struct", "value", "field"):
            if st["kind"] == "call":
                lhs = st["lhs"]
                nxt = body[k + 1] if k + 1 < len(body) else None
                has_err = bool(len(lhs) > 1 and nxt and nxt["kind"] == "iferr" and nxt["cond"] == lhs[-1] + " != nil")
                has_cl = len(lhs) == 3 or (len(lhs) == 2 and not has_err)
                if has_cl:
                    cl_pos[lhs[1]] = pos
                if has_err:
                    eb = nxt
                    cls = [cl_pos.get(c, 999) for c in eb.get("cleanups") or []]
                    ret = eb.get("ret") or []
                    want_len = 1 + int(inj["cleanup"]) + 1
                    if len(ret) != want_len:
                        probs.append(("C03", "error branch of step %d returns %d values, expected %d" % (pos, len(ret), want_len)))
                    else:
                        if ret[-1] != lhs[-1]:
                            probs.append(("C03", "error branch of step %d returns %s, not the error variable %s assigned by the failing call"
                                          % (pos, ret[-1], lhs[-1])))
                        if not zero_ok[inj["out"][0]](ret[0]):
                            probs.append(("C03", "error branch of step %d returns %s, not the zero value of the result type" % (pos, ret[0])))
                        if inj["cleanup"] and ret[1] != "nil":
                            probs.append(("C03", "error branch of step %d returns a non-nil cleanup %s" % (pos, ret[1])))
                    if eb.get("text"):
                        probs.append(("C03", "error branch of step %d: %s" % (pos, eb["text"])))
                    toks.append("eb:%d:[%s]:%d" % (pos, ",".join(map(str, cls)), int(len(ret) == 3)))
            pos += 1
        elif st["kind"] == "iferr":
            prev = body[k - 1] if k > 0 else None
            if not prev or prev["kind"] != "call":
                probs.append(("C03", "error check not attached to a provider call"))
    ret = [s for s in body if s["kind"] == "return"]
    if len(ret) == 1:
        r = ret[0]
        if r.get("hasfunc"):
            toks.append("closure:[%s]" % ",".join(str(cl_pos.get(c, 999)) for c in r.get("cleanups") or []))
            if r.get("text"):
                probs.append(("C04", r["text"]))
        else:
            toks.append("closure:none")
        toks.append("retnil:%d" % int(inj["err"] and (r.get("ret") or [""])[-1] == "nil"))
        if inj["cleanup"] and not r.get("hasfunc"):
            probs.append(("C04", "injector declares a cleanup result but returns no closure"))
    return " ".join(["ok"] + toks), probs


def run_projection(ix, rn):
    """canonical `run` reply from an observed execution"""
    u = ix.u
    idof = lambda name: name.split("Prov")[-1]
    evs = []
    failed = None
    for ln in rn["trace"]:
        m = re.match(r"call (\S+)\(.*\) -> (FAIL|#\d+)$", ln)
        if m:
            evs.append("call:" + idof(m.group(1)))
            if m.group(2) == "FAIL":
                failed = idof(m.group(1))
            continue
        m = re.match(r"cleanup (\S+) #\d+$", ln)
        if m:
            evs.append("cleanup:" + idof(m.group(1)))
    if rn["err"] not in (None, "nil"):
        oc = "failed:%s:%d" % (failed, int(rn["cleanup"] == "nil"))
    else:
        oc = "ok:closure" if rn["cleanup"] is not None else "ok:noclosure"
    cl = []
    for ln in rn["ctrace"]:
        m = re.match(r"cleanup (\S+) #\d+$", ln)
        if m:
            cl.append("cleanup:" + idof(m.group(1)))
    return " ".join(["run"] + evs + [oc, "|"] + cl)
