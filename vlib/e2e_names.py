"""C14: adversarial naming of generated programs and the name-level correspondence with WireV.NameEmit."""
import re

from . import e2e_gen as G

UNIVERSE = ("any append bool byte cap clear close comparable complex complex128 complex64 copy delete error false float32 "
            "float64 imag int int16 int32 int64 int8 iota len make max min new nil panic print println real recover rune "
            "string true uint uint16 uint32 uint64 uint8 uintptr").split()

PKG_POOL = ["err", "cleanup", "cleanup2", "arg", "v", "util", "server", "err2", "context", "str", "errs", "x1", "foo", "init", "copy", "len", "new", "append",
            "string", "nil", "error"]
TYPE_POOL = ["Err", "Err2", "Cleanup", "Cleanup2", "Arg", "V", "Select", "Func", "Type", "Var", "Range", "Go", "Map", "Chan",
             "Default", "Error", "String", "Int", "Bool", "Nil", "True", "Len", "New", "Make", "Util", "Server", "Context",
             "Wire", "Fmt", "Wtrace", "HTTPServer", "URL", "ID", "X1", "Z9", "Foo", "Foo2", "Foo_2", "Bar", "Append", "Any",
             "If", "For", "Case", "Struct", "Interface", "Import", "Package", "Return", "Switch", "Break", "Const"]
PARAM_POOL = ["err", "err2", "cleanup", "cleanup2", "cleanup3", "arg", "arg2", "v", "error", "string", "len", "new", "s", "foo",
              "foo2", "_", "_", "x1", "nil", "true", "append", "@pkg", "@pkg", "@local", "@local"]
DECL_POOL = ["err", "err2", "cleanup", "cleanup2", "arg", "v", "s", "foo", "foo2", "errs", "x1", "_wireFooValue", "v2"]


def adversarial(rng, prog, opts=None):
    opts = opts or {}
    """rename packages, types, parameters of `prog` from the adversarial pools; add package-level declarations"""
    # packages
    names = rng.sample(PKG_POOL, 3)
    targeted = rng.random() < 0.4
    if targeted:
        # the generated error / cleanup variable would be err2 / cleanup2: name packages just so
        names[0], names[1] = rng.choice([("err2", "cleanup2"), ("cleanup2", "err2"), ("err2", "err3"), ("cleanup2", "cleanup3")])
        if names[2] in names[:2]:
            names[2] = "server"
    if rng.random() < opts.get("p_samepkg", 0.3):
        names[1] = names[0]                 # two packages with the same name, different directories
    # the last element of a package's directory need not be its package name: name + digit (which is what Wire's
    # disambiguation of a second package of that name produces), a prefixed or dotted form, or another package's name
    dirs = list(names[:2])
    r = rng.random()
    if r < 0.3:
        k = rng.randrange(2)
        dirs[k] = names[k] + rng.choice(["2", "2", "3"])
    elif r < 0.4:
        dirs = [names[0] + "2", names[1] + "3"]
    elif r < 0.5:
        dirs[rng.randrange(2)] = rng.choice(["go-" + names[0], names[1] + ".v1", "v2"])
    elif r < 0.55 and names[0] != names[1]:
        dirs = [names[1], names[0]]           # each lives in a directory called like the other
    if names[0] == names[1] and rng.random() < 0.5:
        # two packages of one name: the second (or the first) lives in a directory called name2 — exactly the alias Wire
        # invents for the second package of that name, so "alias equals last path element" says nothing about the need for it
        k = rng.randrange(2)
        dirs = [names[0], names[0]]
        dirs[k] = names[0] + "2"
    for k, lp in enumerate(["liba", "libb"]):
        prog.pkgmap[lp] = {"dir": "d%d/%s" % (k, dirs[k]), "name": names[k]}
    if rng.random() < 0.5:
        prog.pkgmap["app"] = {"dir": "cmd/" + names[2], "name": names[2]}
    quals = {prog.qual(p) for p in prog.pkgs} | {"wire", "fmt", "wtrace"}
    # type names: unique per package, sometimes shared between packages
    used = {p: set() for p in prog.pkgs}
    ents = [d for u in prog.units if not getattr(u, "shadow", False) for d in u.structs + u.ifaces]
    ents.sort(key=lambda d: {"liba": 0, "libb": 1, "app": 2}[d["pkg"]])
    for _u in [None]:
        for d in ents:
            for _ in range(30):
                nm = rng.choice(TYPE_POOL)
                if rng.random() < 0.25:
                    nm = nm + str(rng.randint(2, 3))
                if nm not in used[d["pkg"]]:
                    break
            else:
                nm = d["name"]
            # packages that share a package name also share type names
            if d["pkg"] == "libb" and names[0] == names[1] and rng.random() < 0.6:
                free = [x for x in used["liba"] if x not in used["libb"]]
                if free:
                    nm = rng.choice(free)
            used[d["pkg"]].add(nm)
            d["name"] = nm
    # type names that begin with a non-ASCII letter, the same one in two packages (so that the second local needs the
    # package-prefixed form); own random stream
    import random as _random
    import zlib
    from .common import seed as _seed
    r5 = _random.Random(zlib.crc32(("%s/nonascii/%s" % (prog.name, _seed())).encode()))
    if r5.random() < opts.get("p_nonascii_types", 0.2):
        nm = r5.choice(["Ärger", "Über", "Ωmega", "Éclair", "Ñu", "Øre"])
        bypkg = {}
        for d in ents:
            if "fields" in d:           # struct types only
                bypkg.setdefault(d["pkg"], []).append(d)
        picked = 0
        for pk in sorted(bypkg):
            if nm not in used[pk] and picked < 2:
                d = r5.choice(bypkg[pk])
                used[pk].discard(d["name"])
                used[pk].add(nm)
                d["name"] = nm
                picked += 1
        prog.nonascii = picked > 0
    # the local that holds a provider's result is named after its type: let the types that cleanup-returning (and
    # error-returning) providers construct be called like the cleanup / error variables Wire invents next to them
    if rng.random() < opts.get("p_cleanup_types", 0.35):
        for u in prog.units:
            if getattr(u, "shadow", False):
                continue
            n = 0
            for it in u.items:
                if it["kind"] == "func" and (it.get("cleanup") or it.get("err")) and it["outs"][0][0] in ("v", "p"):
                    st = u.structs[it["outs"][0][1]]
                    base = "Cleanup" if it.get("cleanup") else "Err"
                    nm = base + ("" if n == 0 else str(n + 1))
                    if nm not in used[st["pkg"]]:
                        used[st["pkg"]].discard(st["name"])
                        used[st["pkg"]].add(nm)
                        st["name"] = nm
                    n += 1
    # provider functions are numbered per package: two packages (possibly with the same package name)
    # declare functions with the same name
    count = {p: 0 for p in prog.pkgs}
    for u in prog.units:
        for it in u.items:
            if it["kind"] == "func" and rng.random() < 0.8:
                count[it["pkg"]] += 1
                it["fn"] = "Mk%d" % count[it["pkg"]]
    prog.mimic_methods = rng.random() < opts.get("p_mimic_methods", 0.7)
    # a helper in the injector file that calls built-in functions: Wire copies it, and the names under which the
    # generated file imports packages must not capture them
    if rng.random() < opts.get("p_builtin_helper", 0.6):
        prog.inj_helpers = ["func wireBuiltinsHelper(xs []int) int {\n\tb := make([]int, len(xs), cap(xs)+1)\n\tn := copy(b, xs)\n"
                            "\tb = append(b, *new(int))\n\tvar s string = \"x\"\n\tvar e error = nil\n\t_ = e\n\treturn n + len(b) + len(s)\n}"]
    # a copied helper whose type-switch variable is called like a package the generated file imports (used in several clauses)
    if rng.random() < opts.get("p_switch_helper", 0.5):
        nm = prog.pkgmap[rng.choice(["liba", "libb"])]["name"]
        if nm not in G_KEYWORDS and nm not in G.PREDECLARED and nm != "init" and nm != "fmt":
            prog.inj_helpers = list(getattr(prog, "inj_helpers", [])) + [
                "func wireSwitchHelper(v interface{}) string {\n\tswitch %s := v.(type) {\n\tcase int:\n\t\treturn fmt.Sprint(%s + 1)\n"
                "\tcase string:\n\t\treturn %s + \"!\"\n\tdefault:\n\t\treturn fmt.Sprint(%s)\n\t}\n}" % (nm, nm, nm, nm)]
            prog.inj_helper_imports = ["fmt"]
    # extra declarations in the injector package (never a name the package's own files need)
    taken = set(used["app"]) | quals | {"Anchor"}
    pool = rng.sample(DECL_POOL, rng.randint(0, 4))
    if targeted:
        pool = ["err", "cleanup"] + [x for x in pool if x not in ("err", "cleanup")]
    for nm in pool:
        if nm in taken:
            continue
        taken.add(nm)
        form = rng.choice(["var %s = 0", "const %s = 1", "type %s int", "func %s() {}", "var %s = fmt.Errorf(\"package-level %s\")"])
        prog.extra_decls.append(form % ((nm, nm) if form.count("%s") == 2 else (nm,)))
    prog.scope_extra = sorted(taken - quals - set(used["app"]) - {"Anchor"})
    # parameter names
    for u in prog.units:
        u.inj["form"] = "panic"          # a parameter may be called nil or true: no return statement in the template
        n = len(u.inj["args"])
        if rng.random() < 0.15:
            u.inj["argnames"] = [""] * n
            continue
        out, seen = [], set()
        for _ in range(n):
            nm = "@pkg" if rng.random() < opts.get("p_param_pkg", 0.0) else rng.choice(PARAM_POOL)
            while nm != "_" and not nm.startswith("@") and nm in seen:
                nm = rng.choice(PARAM_POOL)
            seen.add(nm)
            out.append(nm)
        if rng.random() < opts.get("p_named_results", 0.3):
            # named results, called like the variables Wire invents
            u.inj["resnames"] = [rng.choice(["out", "res", "v", "arg"]), rng.choice(["cleanup", "cleanup", "cleanup2", "done", "err2"]),
                                 rng.choice(["err", "err", "err2", "e", "cleanup3"])]
            if not u.inj["cleanup"]:
                u.inj["resnames"] = [u.inj["resnames"][0], u.inj["resnames"][2]]
            if len(set(u.inj["resnames"])) != len(u.inj["resnames"]):
                u.inj["resnames"] = None
        if n >= 2 and rng.random() < opts.get("p_blank_then_local", 0.3):
            # func Init(_ Foo, foo Bar): the blank parameter gets a name derived from its type, which the next one already has
            k = rng.randrange(1, n)
            out[k - 1], out[k] = "_", "@local"
        u.inj["argnames"] = out


def resolve_param_names(prog, u, inj_used_quals):
    """placeholders: @pkg = the name of a package the injector file does not itself import,
    @local = the local name Wire would derive from the type of another parameter or of the result"""
    out = []
    quals = [prog.qual(p) for p in prog.pkgs if p != "app"]
    free = [q for q in quals if q not in inj_used_quals]
    seen = set(x for x in u.inj["argnames"] if not x.startswith("@"))
    for k, nm in enumerate(u.inj["argnames"]):
        if nm == "@pkg":
            # first choice: the package of the parameter's own type (`log *log.Logger`), then any package the body of the
            # template does not mention
            td = u.inj["args"][k]
            own = prog.qual(u.structs[td[1]]["pkg"]) if td[0] in ("v", "p") and u.structs[td[1]]["pkg"] != "app" else None
            cands = ([own] if own and own not in inj_used_quals else []) + free
            nm = next((q for q in cands if q not in seen), "p%d" % k)
        elif nm == "@local":
            td = u.inj["out"] if k == 0 else u.inj["args"][k - 1]
            base = u.structs[td[1]]["name"] if td[0] != "i" else u.ifaces[td[1]]["name"]
            nm = base[0].lower() + base[1:]
            if nm in G_KEYWORDS or nm in inj_used_quals or nm in seen:
                nm = "p%d" % k
        seen.add(nm)
        out.append(nm)
    return out


G_KEYWORDS = set("break case chan const continue default defer else fallthrough for func go goto if import interface map "
                 "package range return select struct switch type var".split())


def shape_tok(u, td):
    k, i = td
    if k == "s":
        return "o"
    d = u.ifaces[i] if k == "i" else u.structs[i]
    return "np:=%s:=%s" % (d["name"], u.prog.pkgmap[d["pkg"]]["name"])


def lit_pkgs(u, td, depth=G.LIT_DEPTH):
    """packages of the type names in go_lit(u, td, …) in source order"""
    out = []

    def walk(td, depth):
        k, i = td
        if k == "i":
            d = u.ifaces[i]
            return walk(("p" if d["ptr"] else "v", d["impl"]), depth)
        if k == "s":
            out.append(u.structs[i]["pkg"])
            return walk(("v", i), depth)
        out.append(u.structs[i]["pkg"])
        if depth > 0:
            for _, ftd in u.structs[i]["fields"]:
                walk(ftd, depth - 1)
    walk(td, depth)
    return out


def file_scope(prog):
    """top-level identifiers of package app when loaded with the wireinject tag"""
    names = {"Anchor"} | set(getattr(prog, "scope_extra", []))
    for u in prog.units:
        for d in u.structs + u.ifaces:
            if d["pkg"] == "app":
                names.add(d["name"])
        for it in u.items:
            if it.get("pkg") == "app" and it["kind"] == "func":
                names.add(it.get("fn", "Prov%d" % it["id"]))
        for s in u.sets:
            if s["pkg"] == "app" and not s["build"]:
                names.add(s["var"])
        if u.inj["pkg"] == "app":
            names.add(u.inj["name"])
    return sorted(names) + UNIVERSE


def pkg_of(u, td):
    k, i = td
    return u.ifaces[i]["pkg"] if k == "i" else u.structs[i]["pkg"]


def name_events(prog, unit_results):
    """the `namefile` request for package app and, per event, what to compare it with"""
    ev, expect = [], []

    def Q(lp):
        if lp == "app":
            return
        ev.append("Q =%s =%s" % (prog.pkgmap[lp]["name"], prog.path(lp)))
        expect.append(("Q", lp))
    for ur in unit_results:
        u = ur.u
        if not (ur.impl or "").startswith("ok") or ur.fn is None:
            return None
        calls = []
        for tok in ur.impl.split()[1:]:
            kind, out, src = tok.split(":")[:3]
            calls.append((kind, int(out), ur.ix.item_by_id.get(int(src)), tok))
        inv = {v: k for k, v in u.tids.items()}
        # 1. value variables
        for kind, out, it, tok in calls:
            if kind == "value":
                ev.append("V " + shape_tok(u, it.get("conc", it["outs"][0]) if it["kind"] == "ivalue" else it["outs"][0]))
                expect.append(("V", ur, it))
        # 2. first pass: imports
        for td in u.inj["args"]:
            Q(pkg_of(u, td))
        Q(pkg_of(u, u.inj["out"]))
        for kind, out, it, tok in calls:
            if kind == "func":
                Q(it["pkg"])
                if tok.split(":")[-1][2] == "1" and u.inj["out"][0] == "v":
                    Q(pkg_of(u, u.inj["out"]))
            elif kind == "struct":
                Q(u.structs[it["struct"]]["pkg"])
        # 3. the injector's binders
        ps = " ".join("=%s %s" % (nm if nm != "_" else "_", shape_tok(u, td))
                      for nm, td in zip(u.inj["argnames_resolved"], u.inj["args"]))
        ss = " ".join("%s %d %d" % (shape_tok(u, inv[out]), int(kind == "func"), int(kind == "func" and tok.split(":")[-1][1] == "1"))
                      for kind, out, it, tok in calls)
        ev.append(("I %d %s ns %s" % (len(u.inj["args"]), ps, ss)).replace("  ", " ").strip())
        expect.append(("I", ur))
        # 4. the value expressions are printed after the injector
        for kind, out, it, tok in calls:
            if kind == "value":
                for lp in lit_pkgs(u, it.get("conc", it["outs"][0])):
                    Q(lp)
    return "namefile scope " + " ".join("=" + n for n in file_scope(prog)) + " ; " + " ; ".join(ev), expect


def observed_names(ur):
    """binders as they appear in the generated injector"""
    fn = ur.fn
    params = [p.split(" ")[0] for p in fn["params"] or []]
    locals_, cleanups, errv = [], [], None
    body = fn["body"] or []
    for k, st in enumerate(body):
        if st["kind"] in ("call", "struct", "value", "field"):
            locals_.append(st["lhs"][0])
            if st["kind"] == "call":
                lhs = st["lhs"]
                nxt = body[k + 1] if k + 1 < len(body) else None
                has_err = bool(len(lhs) > 1 and nxt and nxt["kind"] == "iferr")
                if len(lhs) == 3 or (len(lhs) == 2 and not has_err):
                    cleanups.append(lhs[1])
                if has_err:
                    errv = lhs[-1]
    return params, locals_, cleanups, errv


def name_correspondence(units):
    """-> (disagreements, count) between the binders in the generated injectors and WireV.nameInjector"""
    from . import e2e_check as C
    byp = {}
    for ur in units:
        byp.setdefault(ur.prog.name, []).append(ur)
    reqs, exps = [], []
    for name, urs in byp.items():
        if getattr(urs[0].prog, "nonascii", False):
            # the name model lower-cases ASCII only (Unicode case tables are not modelled): these programs are judged by compiling
            # and running them, not by the name-level correspondence
            continue
        r = name_events(urs[0].prog, urs)
        if r:
            reqs.append(r[0])
            exps.append((urs, r[1]))
    if not reqs:
        return [], 0
    reps = C.model_replies(reqs)
    dis, n = [], 0
    for (urs, exp), rep, req in zip(exps, reps, reqs):
        parts = rep.split(" ; ")
        if len(parts) != len(exp):
            dis.append({"stream": "names", "request": req[:2000], "impl": "(%d events)" % len(exp), "model": rep[:500]})
            continue
        for e, pt in zip(exp, parts):
            if e[0] != "I":
                continue
            ur = e[1]
            ps, ls, cs, ev = observed_names(ur)
            obs = "params=%s locals=%s cleanups=%s" % (",".join(ps), ",".join(ls), ",".join(cs))
            mod = pt.split(" ", 2)[2] if pt.startswith("I err=") else pt
            errm = pt.split(" ")[1][4:] if pt.startswith("I err=") else None
            n += 1
            if obs != mod or (ev is not None and ev != errm):
                dis.append({"stream": "names", "request": req[:3000], "program": ur.prog.name,
                            "impl": obs + " err=%s" % ev, "model": mod + " err=%s" % errm})
    return dis, n
