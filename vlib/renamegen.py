"""Random single-file Go packages for the `rename` stream (C15): functions whose local entities — variables,
constants, types, parameters, results, type parameters, labels, closure parameters, range / if / switch
variables, symbolic type-switch variables — are named from a pool that collides with the import names of the
source file, with the (different) import names the generated file will use, with universe names and with
package-level names.  Only the standard library is imported, so that the harness can type-check alone."""
import random

IMPORTS = [("fmt", "fmt"), ("str", "strings"), ("sort", "sort"), ("template", "text/template"), ("htemplate", "html/template"),
           ("rand", "math/rand"), ("crand", "crypto/rand")]
ANCHOR = {"fmt": "var _ = fmt.Sprint", "str": "var _ = str.Count", "sort": "var _ = sort.Ints", "template": "var _ template.FuncMap",
          "htemplate": "var _ htemplate.FuncMap", "rand": "var _ = rand.Intn", "crand": "var _ = crand.Reader"}
POOL = ["strings", "strings", "fmt", "sort", "template", "template2", "rand", "rand2", "str", "htemplate", "crand", "x", "y",
        "strings2", "fmt2", "len", "nil", "cap", "iota", "any", "helper", "T", "G", "K", "err", "sort2", "strings2_2", "template2_2"]
PKG_LEVEL = {"helper": "func", "T": "type", "G": "int", "K": "const", "main": "func"}
# int-valued expressions and what they need to mean what they say
EXPRS = [("1", []), ("7", []), ('str.Count("aa", "a")', ["str"]), ("sort.SearchInts(nil, 1)", ["sort", "nil"]),
         ('len(fmt.Sprint(1))', ["len", "fmt"]), ("rand.Intn(3)", ["rand"]), ("len(template.FuncMap{})", ["len", "template"]),
         ("len(htemplate.FuncMap{})", ["len", "htemplate"]), ("helper()", ["helper"]), ("K", ["K"]), ("G", ["G"]),
         ("(T{F: 1}).F", ["T"]), ("(T{}).fmt()", ["T"]), ("(T{strings: 2}).strings", ["T"]), ('str.Index("ab", "b")', ["str"]),
         ("cap([]int{1})", ["cap"])]
OTHER_DECLS = [("var %s template.FuncMap", ["template"]), ("var %s htemplate.FuncMap", ["htemplate"]), ("var %s *rand.Rand", ["rand"]),
               ("var %s = crand.Reader", ["crand"]), ("var %s str.Builder", ["str"]), ("var %s sort.IntSlice", ["sort"]),
               ("var %s fmt.Stringer", ["fmt"]), ("var %s T", ["T"])]


class Env:
    def __init__(self):
        self.scopes = [{}]
        self.labels = set()

    def push(self):
        self.scopes.append({})

    def pop(self):
        self.scopes.pop()

    def declare(self, name, kind):
        if name != "_":
            self.scopes[-1][name] = kind

    def lookup(self, name):
        for sc in reversed(self.scopes):
            if name in sc:
                return sc[name]
        return None

    def free(self, name):
        return self.lookup(name) is None

    def here(self, name):
        return name in self.scopes[-1]

    def ints(self):
        seen, out = set(), []
        for sc in reversed(self.scopes):
            for n, k in sc.items():
                if n not in seen:
                    seen.add(n)
                    if k in ("int", "const"):
                        out.append(n)
        for n, k in PKG_LEVEL.items():
            if n not in seen and k in ("int", "const"):
                out.append(n)
        return out


class Gen:
    def __init__(self, rng):
        self.rng = rng
        self.nlabel = 0

    def name(self, env, avoid=()):
        for _ in range(40):
            n = self.rng.choice(POOL)
            if n not in avoid:
                return n
        return "zz"

    def expr(self, env, depth=2):
        r = self.rng
        cands = [e for e, need in EXPRS if all(env.free(x) for x in need)]
        ints = env.ints()
        if depth > 0 and r.random() < 0.4:
            return "%s %s %s" % (self.expr(env, depth - 1), r.choice(["+", "*", "-"]), self.expr(env, depth - 1))
        if ints and r.random() < 0.55:
            return r.choice(ints)
        return r.choice(cands) if cands else "1"

    def block(self, env, depth, n, L, ind, infunc):
        r = self.rng
        t = "\t" * ind
        for _ in range(n):
            k = r.randrange(17)
            if k <= 2:
                nm = self.name(env)
                if env.here(nm):
                    if env.lookup(nm) == "int":
                        L.append("%s%s = %s" % (t, nm, self.expr(env)))
                    continue
                e = self.expr(env)
                env.declare(nm, "int")
                L += ["%s%s := %s" % (t, nm, e), "%s_ = %s" % (t, nm)]
            elif k == 3:
                tm, need = r.choice(OTHER_DECLS)
                nm = self.name(env)
                if env.here(nm) or not all(env.free(x) for x in need) or nm in need:
                    continue
                env.declare(nm, "other")
                L += [t + tm % nm, "%s_ = %s" % (t, nm)]
            elif k == 4 and depth > 0:
                L.append(t + "{")
                env.push()
                self.block(env, depth - 1, r.randint(1, 4), L, ind + 1, infunc)
                env.pop()
                L.append(t + "}")
            elif k == 5 and depth > 0:
                nm = self.name(env)
                env.push()
                env.declare(nm, "int")
                L.append("%sfor %s := 0; %s < 2; %s++ {" % (t, nm, nm, nm))
                env.push()
                self.block(env, depth - 1, r.randint(1, 3), L, ind + 1, infunc)
                env.pop()
                env.pop()
                L.append(t + "}")
            elif k == 6 and depth > 0:
                nm = self.name(env)
                e = self.expr(env)
                env.push()
                env.declare(nm, "int")
                L.append("%sif %s := %s; %s > 0 {" % (t, nm, e, nm))
                env.push()
                self.block(env, depth - 1, r.randint(1, 3), L, ind + 1, infunc)
                env.pop()
                L.append(t + "} else {")
                env.push()
                L.append("%s\t_ = %s" % (t, nm))
                self.block(env, depth - 1, r.randint(0, 2), L, ind + 1, infunc)
                env.pop()
                env.pop()
                L.append(t + "}")
            elif k == 7 and depth > 0 and env.free("int"):
                nm = self.name(env)
                e = self.expr(env)
                labels = env.labels
                env.labels = set()          # labels of the enclosing function are not visible in a function literal
                env.push()
                env.declare(nm, "int")
                L.append("%sfunc(%s int) {" % (t, nm))
                L.append("%s\t_ = %s" % (t, nm))
                self.block(env, depth - 1, r.randint(1, 4), L, ind + 1, False)
                env.pop()
                env.labels = labels
                L.append("%s}(%s)" % (t, e))
            elif k == 8 and depth > 0 and env.free("int") and env.free("string"):
                nm = self.name(env)
                e = self.expr(env)
                init = ""
                env.push()
                if r.random() < 0.3:
                    m = self.name(env, avoid=(nm,))
                    init = "%s := %s; " % (m, e)
                    env.declare(m, "int")
                    e = m
                L.append("%sswitch %s%s := interface{}(%s).(type) {" % (t, init, nm, e))
                for case, kind in (("int", "int"), ("string", "other"), (None, "other")):
                    L.append(t + ("case %s:" % case if case else "default:"))
                    env.push()
                    env.declare(nm, kind)
                    L.append("%s\t_ = %s" % (t, nm))
                    self.block(env, depth - 1, r.randint(0, 2), L, ind + 1, infunc)
                    env.pop()
                env.pop()
                L.append(t + "}")
            elif k == 9:
                lb = self.name(env)
                if lb in env.labels or lb == "_":
                    continue
                env.labels.add(lb)
                if r.random() < 0.5:
                    L += ["%s%s:" % (t, lb), "%sfor {" % t, "%s\tbreak %s" % (t, lb), "%s}" % t]
                else:
                    # forward reference: the use comes before the declaring identifier
                    L += [t + "{", "%s\tgoto %s" % (t, lb), "%s%s:" % (t, lb), "%s\t_ = 0" % t, t + "}"]
            elif k == 10:
                nm = self.name(env)
                if env.here(nm):
                    continue
                if r.random() < 0.5:
                    env.declare(nm, "const")
                    L += ["%sconst %s = %d" % (t, nm, r.randint(2, 9)), "%s_ = %s" % (t, nm)]
                elif env.free("int"):
                    v = self.name(env, avoid=(nm,))
                    if env.here(v):
                        continue
                    env.declare(nm, "type")
                    env.declare(v, "other")
                    L += ["%stype %s int" % (t, nm), "%svar %s %s = 1" % (t, v, nm), "%s_ = %s" % (t, v)]
            elif k == 11 and depth > 0 and env.free("int"):
                a = self.name(env)
                b = self.name(env, avoid=(a,))
                env.push()
                env.declare(a, "int")
                env.declare(b, "int")
                L.append("%sfor %s, %s := range []int{1, 2} {" % (t, a, b))
                L.append("%s\t_, _ = %s, %s" % (t, a, b))
                env.push()
                self.block(env, depth - 1, r.randint(0, 3), L, ind + 1, infunc)
                env.pop()
                env.pop()
                L.append(t + "}")
            elif k == 12 and env.free("int"):
                # a local struct type whose field is named from the pool: fields keep their names
                s = self.name(env)
                f = self.name(env)
                v = self.name(env, avoid=(s,))
                if env.here(s) or env.here(v) or f == "_":
                    continue
                env.declare(s, "type")
                env.declare(v, "other")
                L += ["%stype %s struct{ %s int }" % (t, s, f), "%s%s := %s{%s: %s}" % (t, v, s, f, "3"), "%s_ = %s.%s" % (t, v, f)]
            elif k == 14 and env.free("int"):
                # a local type embedded in another local struct: the field is named after the type
                a = self.name(env)
                m = self.name(env, avoid=(a,))
                v = self.name(env, avoid=(a, m))
                if env.here(a) or env.here(m) or env.here(v) or "_" in (a, m, v):
                    continue
                env.declare(a, "type")
                env.declare(m, "type")
                env.declare(v, "other")
                ptr = r.random() < 0.4
                alias = r.random() < 0.3
                if alias:
                    self.nlabel += 1
                    L += ["%stype base%d struct{ Z int }" % (t, self.nlabel), "%stype %s = base%d" % (t, a, self.nlabel)]
                else:
                    L.append("%stype %s struct{ Z int }" % (t, a))
                L += ["%stype %s struct{ %s%s }" % (t, m, "*" if ptr else "", a),
                      "%s%s := %s{%s: %s%s{Z: 2}}" % (t, v, m, a, "&" if ptr else "", a),
                      "%s_ = %s.%s.Z + %s.Z" % (t, v, a, v)]
            elif k == 13 and depth > 0 and env.free("int"):
                # closure value that recurses through its own name
                nm = self.name(env)
                if env.here(nm):
                    continue
                env.declare(nm, "other")
                p = self.name(env, avoid=(nm,))
                L.append("%svar %s func(int) int" % (t, nm))
                L.append("%s%s = func(%s int) int {" % (t, nm, p))
                L.append("%s\tif %s <= 0 {" % (t, p))
                L.append("%s\t\treturn 0" % t)
                L.append("%s\t}" % t)
                L.append("%s\treturn %s(%s - 1)" % (t, nm, p))
                L.append(t + "}")
                L.append("%s_ = %s" % (t, nm))
            else:
                L.append("%s_ = %s" % (t, self.expr(env)))

    def func(self, k):
        r = self.rng
        env = Env()
        L = []
        form = r.randrange(5)
        ps = []
        if form == 0:
            sig = "func F%d() {" % k
        elif form == 1:
            a = self.name(env)
            b = self.name(env, avoid=(a,))
            env.declare(a, "int")
            env.declare(b, "other")
            sig = "func F%d(%s int, %s string) {" % (k, a, b)
            ps = [a, b]
        elif form == 2:
            a = self.name(env)
            env.declare(a, "int")
            sig = "func F%d() (%s int) {" % (k, a)
        elif form == 3:
            a = self.name(env, avoid=("any",))
            b = self.name(env, avoid=(a, "any"))
            c = self.name(env, avoid=(a, b))
            # a type parameter used in the constraint of an earlier one
            env.declare(a, "type")
            env.declare(b, "type")
            env.declare(c, "other")
            sig = "func F%d[%s ~[]%s, %s any](%s %s) {" % (k, a, b, b, c, a)
            ps = [c]
        else:
            a = self.name(env)
            env.declare(a, "other")
            sig = "func (%s T) M%d() {" % (a, k)
            ps = [a]
        L.append(sig)
        for p in ps:
            if p != "_":
                L.append("\t_ = %s" % p)
        self.block(env, 3, r.randint(3, 9), L, 1, True)
        if form == 2:
            L.append("\treturn")
        L.append("}")
        return "\n".join(L)

    def file(self):
        r = self.rng
        imps = list(IMPORTS)
        hdr = "package p\n\nimport (\n" + "".join('\t%s"%s"\n' % ("" if a == p.split("/")[-1] else a + " ", p) for a, p in imps) + ")\n"
        anchors = [ANCHOR[a] for a, _ in imps]
        r.shuffle(anchors)
        cut = r.randint(0, len(anchors))
        base = ["type T struct {\n\tstrings int\n\tF       int\n}", "func (t T) fmt() int { return t.F }", "func helper() int { return 1 }",
                "var G = 5", "const K = 2"]
        funcs = [self.func(k) for k in range(r.randint(3, 7))]
        body = anchors[:cut] + base + funcs + anchors[cut:]
        if r.random() < 0.5:
            r.shuffle(funcs)
            body = anchors[:cut] + funcs[:2] + base + funcs[2:] + anchors[cut:]
        return hdr + "\n" + "\n\n".join(body) + "\n"


def write_sources(d, seed, n):
    rng = random.Random(seed)
    g = Gen(rng)
    for i in range(n):
        open("%s/f%04d.go" % (d, i), "w").write(g.file())
