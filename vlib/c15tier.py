"""C15: declarations copied from an injector file keep their meaning — a corpus of declarations covering
the statement and expression forms of the language (incl. generics) is copied by Wire, compiled, and its
functions are executed with and without the wireinject tag."""
import os
import re

from . import e2e_run as R
from .cmdtier import Workspace, panicked, MOD
from .common import V, GOENV, run

DEP = "package dep\n\ntype A struct{ N int }\n\nfunc NewA() A { return A{N: 7} }\n\nvar Exported = \"dep-exported\"\n"
THIRD = ("package third\n\ntype Reader struct{ N int }\n\nfunc (r Reader) Read() int { return r.N * 2 }\n\ntype Writer struct{ M string }\n\n"
         "type List[E any] struct{ Items []E }\n\nvar Origin = \"third\"\n")
DEP2 = "package dep\n\ntype B struct{ M string }\n\nfunc NewB() B { return B{M: \"other\"} }\n"
A_GO = ("package corp\n\nimport (\n\t\"example.com/c/corp/dep\"\n\tdepx \"example.com/c/corp/other/dep\"\n)\n\n"
        "type Root struct {\n\tA dep.A\n\tB depx.B\n}\n\nfunc NewRoot(a dep.A, b depx.B) Root { return Root{A: a, B: b} }\n")
MAIN = ("package main\n\nimport (\n\t\"fmt\"\n\n\t\"example.com/c/corp\"\n)\n\nfunc main() {\n\tfor i, s := range corp.RunAll() {\n\t\tfmt.Printf(\"%d: %s\\n\", i, s)\n\t}\n}\n")


def run_c15(rep, tier):
    ws = Workspace()
    fails = []
    try:
        R.build_tools()
        d = ws.root + "/corp"
        os.makedirs(d + "/dep")
        os.makedirs(d + "/other/dep")
        os.makedirs(ws.root + "/cmd/run")
        open(d + "/dep/dep.go", "w").write(DEP)
        open(d + "/other/dep/dep.go", "w").write(DEP2)
        os.makedirs(d + "/third")
        open(d + "/third/third.go", "w").write(THIRD)
        open(d + "/a.go", "w").write(A_GO)
        src = open(V + "/harness/gosrc/corpus/wire.go.txt").read()
        open(d + "/wire.go", "w").write(src)
        src2 = open(V + "/harness/gosrc/corpus/wire2.go.txt").read()
        open(d + "/wire2.go", "w").write(src2)
        open(d + "/greeting.txt", "w").write("hello from a file\n")
        open(ws.root + "/cmd/run/main.go", "w").write(MAIN)
        rc0, out0, err0 = run(["go", "run", "-tags", "wireinject", "./cmd/run"], cwd=ws.root, env=dict(GOENV), timeout=300)
        if rc0 != 0:
            fails.append({"stream": "c15", "why": ["corpus does not run with the wireinject tag (harness problem): " + (out0 + err0)[-500:]]})
            return [], fails
        rc, out, err = ws.wire(["gen", "./corp"])
        rep.evaluations += 1
        if rc != 0 or panicked(err):
            fails.append({"stream": "c15", "why": ["wire gen failed on the declaration corpus (rc=%s): %s" % (rc, err[-600:])]})
            return [], fails
        gen = d + "/wire_gen.go"
        ir = R.irparse([gen])[gen]
        srcir = R.irparse([d + "/wire.go"])[d + "/wire.go"]
        srcir2 = R.irparse([d + "/wire2.go"])[d + "/wire2.go"]
        want = [o for o in srcir["order"] + srcir2["order"] if o not in ("func:Init", "func:Init2")]
        got = [o for o in ir["order"] if o not in ("func:Init", "func:Init2")]
        if want != got:
            fails.append({"stream": "c15", "why": ["copied declarations are not the source's declarations once each, in order: source %s, generated %s" % (want, got)]})
        rep.coverage["c15_decls"] = len(want)
        rc1, out1, err1 = run(["go", "run", "./cmd/run"], cwd=ws.root, env=dict(GOENV), timeout=300)
        if rc1 != 0:
            fails.append({"stream": "c15", "why": ["the package does not build/run with the copied declarations: " + (out1 + err1)[-800:]],
                          "wire_gen.go": open(gen).read()[:3000]})
        elif out1 != out0:
            fails.append({"stream": "c15", "why": ["copied code behaves differently from the original"], "original": out0[:1500], "copied": out1[:1500]})
        rcv, outv, errv = run(["go", "vet", "./corp"], cwd=ws.root, env=dict(GOENV), timeout=300)
        if rcv != 0:
            fails.append({"stream": "c15", "why": ["go vet rejects the generated package: " + (outv + errv)[-500:]]})
        # compiler directives in the doc comments of copied declarations (//go:embed, //go:noinline, ...) are part of the declaration
        rx = re.compile(r"(?m)^//go:(?!build\b|generate\b)\S+.*$")
        wantd, gotd = sorted(rx.findall(src) + rx.findall(src2)), sorted(rx.findall(open(gen).read()))
        rep.evaluations += 1
        if wantd != gotd:
            fails.append({"stream": "c15", "why": ["compiler directives of the copied declarations: source %s, generated file %s" % (wantd, gotd)]})
        # doc comments and struct tags survive
        text = open(gen).read()
        for needle in ("// Pair is generic in two parameters.", '`json:"key" wire:"-"`', "// F1 exercises control flow, labels and shadowing.",
                       "// first", "[K comparable, V any]", "Sum[float64]", "Map[int, string]"):
            rep.evaluations += 1
            if needle not in text:
                fails.append({"stream": "c15", "why": ["the copy lost %r" % needle]})
        rep.nontrivial.add("corpus")
        rep.nontrivial.add("corpus-run")
        rep.sample({"decls": want, "output": out1[:400]})
    finally:
        ws.close()
    return [], fails


# ---- matrix: every kind of local entity x every name the generated file gives a meaning of its own ----------
# Each template is one function (or a small group of declarations) in which NAME is a *local* entity; the body
# also uses the packages through the source file's aliases (str = strings, depx = other/dep, dep, fmt), so that
# a local left un-renamed (or renamed in one place only) captures the import name of the generated file and the
# package no longer compiles or prints something else.
KINDS = [
    ("var", 'func F_@() string {\n\tNAME := 3\n\tNAME++\n\treturn fmt.Sprint(NAME, USE)\n}'),
    ("const", 'func F_@() string {\n\tconst NAME = 4\n\treturn fmt.Sprint(NAME+1, USE)\n}'),
    ("type", 'func F_@() string {\n\ttype NAME struct{ Z int }\n\tv := NAME{Z: 5}\n\tvar p *NAME = &v\n\treturn fmt.Sprint(p.Z, USE)\n}'),
    ("param", 'func F_@() string { return g_@(6) }\n\nfunc g_@(NAME int) string { return fmt.Sprint(NAME*2, USE) }'),
    ("result", 'func F_@() (NAME string) {\n\tdefer func() { NAME += "!" }()\n\tNAME = fmt.Sprint(USE)\n\treturn\n}'),
    ("receiver", 'type r_@ struct{ w int }\n\nfunc (NAME r_@) m() string { return fmt.Sprint(NAME.w, USE) }\n\nfunc F_@() string { return r_@{w: 7}.m() }'),
    ("closure-param", 'func F_@() string {\n\tf := func(NAME int) string { return fmt.Sprint(NAME+1, USE) }\n\treturn f(8)\n}'),
    ("range", 'func F_@() string {\n\ts := ""\n\tfor NAME, v := range []string{"p", "q"} {\n\t\ts += fmt.Sprint(NAME, v, USE)\n\t}\n\treturn s\n}'),
    ("typeswitch", 'func F_@() string {\n\tvar v interface{} = 9\n\tswitch NAME := v.(type) {\n\tcase int:\n\t\treturn fmt.Sprint(NAME+1, USE)\n\tdefault:\n\t\treturn fmt.Sprint(NAME)\n\t}\n}'),
    ("label-back", 'func F_@() string {\n\tn := 0\nNAME:\n\tfor {\n\t\tfor {\n\t\t\tn++\n\t\t\tif n > 2 {\n\t\t\t\tbreak NAME\n\t\t\t}\n\t\t\tcontinue NAME\n\t\t}\n\t}\n\treturn fmt.Sprint(n, USE)\n}'),
    ("label-forward", 'func F_@() string {\n\ts := "a"\n\tif len(s) == 1 {\n\t\tgoto NAME\n\t}\n\ts += "skipped"\nNAME:\n\ts += "b"\n\treturn fmt.Sprint(s, USE)\n}'),
    ("typeparam", 'func g_@[NAME any](x NAME) string { var z NAME; return fmt.Sprint(x, z, USE) }\n\nfunc F_@() string { return g_@(10) + g_@[string]("s") }'),
    ("typeparam-forward", 'func g_@[S ~[]NAME, NAME any](s S) NAME { var z NAME; if len(s) > 0 { z = s[0] }; return z }\n\nfunc F_@() string { return fmt.Sprint(g_@([]int{11, 12}), USE) }'),
    ("generic-type", 'type b_@[NAME any] struct{ V NAME }\n\nfunc (b b_@[NAME]) get() NAME { return b.V }\n\nfunc F_@() string { return fmt.Sprint(b_@[int]{V: 13}.get(), USE) }'),
    ("select", 'func F_@() string {\n\tch := make(chan int, 1)\n\tch <- 14\n\tselect {\n\tcase NAME := <-ch:\n\t\treturn fmt.Sprint(NAME, USE)\n\t}\n}'),
    ("if-init", 'func F_@() string {\n\tif NAME := len("abc"); NAME > 2 {\n\t\treturn fmt.Sprint(NAME, USE)\n\t} else {\n\t\treturn fmt.Sprint(-NAME)\n\t}\n}'),
    ("field", 'func F_@() string {\n\ttype t struct{ NAME int }\n\tv := t{NAME: 15}\n\tv.NAME++\n\treturn fmt.Sprint(v.NAME, USE)\n}'),
    ("method", 'type m_@ struct{}\n\nfunc (m_@) NAME() string { return "m" }\n\nfunc F_@() string { return fmt.Sprint(m_@{}.NAME(), USE) }'),
    ("shadow", 'func F_@() string {\n\tNAME := 1\n\t{\n\t\tNAME := "inner"\n\t\t_ = NAME\n\t\t{\n\t\t\tNAME := 2.5\n\t\t\t_ = NAME\n\t\t}\n\t}\n\treturn fmt.Sprint(NAME, USE)\n}'),
    ("recursion", 'func F_@() string {\n\tvar NAME func(int) int\n\tNAME = func(n int) int {\n\t\tif n == 0 {\n\t\t\treturn 0\n\t\t}\n\t\treturn n + NAME(n-1)\n\t}\n\treturn fmt.Sprint(NAME(4), USE)\n}'),
    ("use-before-closure", 'func F_@() string {\n\tf := func() string { return fmt.Sprint(USE) }\n\tNAME := f()\n\treturn NAME + f()\n}'),
    ("suffix-local", 'func F_@() string {\n\tNAME, NAME2 := 1, "two"\n\tNAME3 := 3.5\n\treturn fmt.Sprint(NAME, NAME2, NAME3, USE)\n}'),
    ("suffix-outer", 'func F_@() string {\n\tNAME2 := "outer"\n\tf := func() string {\n\t\tNAME := 1\n\t\treturn fmt.Sprint(NAME, NAME2, USE)\n\t}\n\treturn f()\n}'),
    ("suffix-param", 'func F_@() string { return g_@(1, "p") }\n\nfunc g_@(NAME int, NAME2 string) string { return fmt.Sprint(NAME, NAME2, USE) }'),
    ("embedded", 'func F_@() string {\n\ttype NAME struct{ Z int }\n\ttype t struct{ NAME }\n\tv := t{NAME: NAME{Z: 5}}\n\tv.NAME.Z++\n\treturn fmt.Sprint(v.Z, v.NAME.Z, USE)\n}'),
    ("embedded-alias-ptr", 'func F_@() string {\n\ttype base struct{ Z int }\n\ttype NAME = base\n\ttype t struct{ *NAME }\n\tv := t{NAME: &NAME{Z: 6}}\n\treturn fmt.Sprint(v.Z, v.NAME.Z, USE)\n}'),
    ("two-locals", 'func F_@() string {\n\tNAME, NAME2 := 1, 2\n\treturn fmt.Sprint(NAME, NAME2, USE)\n}'),
]
# names that mean something in the generated file: `strings` and `dep2` are import names only there (the source says
# str and depx), `fmt` and `dep` are import names in both, `helper` is a package-level function
NAMES = ["strings", "dep2", "fmt", "dep", "helper", "str", "depx", "ok"]
USES = {"strings": 'str.ToUpper("u"), depx.NewB().M', "dep2": 'depx.NewB().M, str.Repeat("r", 2)', "fmt": 'str.Title("t")', "dep": "dep.Exported, depx.NewB().M",
        "helper": 'aide(), str.ToLower("L")', "str": 'str.TrimSpace(" s "), dep.NewA().N', "depx": "depx.NewB().M, dep.NewA().N", "ok": 'str.Count("aa", "a")'}


def matrix_source():
    body, calls = [], []
    for kind, tmpl in KINDS:
        for nm in NAMES:
            tag = "%s_%s" % (re.sub(r"\W", "", kind), nm)
            use = USES[nm]
            if nm == "fmt" and kind not in ("label-back", "label-forward", "field", "method"):
                # a local called fmt hides the package inside the function also in the source: print without it
                t = tmpl.replace("fmt.Sprint(", "sprint(").replace("fmt.Sprint", "sprint")
            elif nm in ("str", "dep", "depx") and kind not in ("label-back", "label-forward", "field", "method"):
                # likewise the source's own alias is hidden: use the other packages only
                use = {"str": "dep.NewA().N", "dep": "depx.NewB().M", "depx": "dep.NewA().N"}[nm]
                t = tmpl
            else:
                t = tmpl
            if kind.startswith("suffix"):
                sfx = "_" if nm[-1].isdigit() else ""
                t = t.replace("NAME2", nm + sfx + "2").replace("NAME3", nm + sfx + "3")
            t = t.replace("NAME2", nm + "Two").replace("NAME", nm).replace("USE", use).replace("@", tag)
            if kind in ("param", "closure-param", "typeparam", "typeparam-forward", "generic-type", "receiver", "result") and nm in ("str", "dep", "depx", "fmt"):
                # the entity's scope covers the whole body / signature: keep what the body needs visible
                pass
            body.append("// %s / %s\n%s" % (kind, nm, t))
            calls.append("F_%s" % tag)
    hdr = ("//go:build wireinject\n// +build wireinject\n\npackage corp\n\nimport (\n\t\"fmt\"\n\tstr \"strings\"\n\n\t\"github.com/google/wire\"\n"
           "\t\"example.com/c/corp/dep\"\n\tdepx \"example.com/c/corp/other/dep\"\n)\n\n"
           "func Init() Root {\n\twire.Build(NewRoot, dep.NewA, depx.NewB)\n\treturn Root{}\n}\n\n"
           "func helper() string { return \"H\" }\n\nfunc helper2() string { return \"H2\" }\n\nfunc aide() string { return helper() + helper2() }\n\nfunc sprint(a ...interface{}) string { return fmt.Sprint(a...) }\n\n"
           "var _ = str.ToUpper\nvar _ = dep.Exported\nvar _ = depx.NewB\n\n")
    run_all = "func RunAll() []string {\n\treturn []string{\n" + "".join("\t\t%s(),\n" % c for c in calls) + "\t}\n}\n"
    return hdr + "\n\n".join(body) + "\n\n" + run_all, calls


def run_matrix(rep, tier):
    ws = Workspace()
    fails = []
    try:
        R.build_tools()
        d = ws.root + "/corp"
        os.makedirs(d + "/dep")
        os.makedirs(d + "/other/dep")
        os.makedirs(ws.root + "/cmd/run")
        open(d + "/dep/dep.go", "w").write(DEP)
        open(d + "/other/dep/dep.go", "w").write(DEP2)
        open(d + "/a.go", "w").write(A_GO)
        src, calls = matrix_source()
        open(d + "/wire.go", "w").write(src)
        open(d + "/greeting.txt", "w").write("hello from a file\n")
        open(ws.root + "/cmd/run/main.go", "w").write(MAIN)
        rc0, out0, err0 = run(["go", "run", "-tags", "wireinject", "./cmd/run"], cwd=ws.root, env=dict(GOENV), timeout=300)
        if rc0 != 0:
            fails.append({"stream": "c15-matrix", "why": ["matrix does not run with the wireinject tag (harness problem): " + (out0 + err0)[-1500:]]})
            return [], fails
        rc, out, err = ws.wire(["gen", "./corp"])
        if rc != 0 or panicked(err):
            fails.append({"stream": "c15-matrix", "why": ["wire gen failed on the collision matrix (rc=%s): %s" % (rc, err[-600:])]})
            return [], fails
        gen = d + "/wire_gen.go"
        text = open(gen).read()
        rc1, out1, err1 = run(["go", "run", "./cmd/run"], cwd=ws.root, env=dict(GOENV), timeout=300)
        lines0 = out0.strip().split("\n")
        rep.evaluations += len(calls)
        for c in calls:
            rep.nontrivial.add("matrix:" + c)
        if rc1 != 0:
            # attribute compile errors to the copied function they lie in
            glines = text.split("\n")
            culprits = {}
            for m in re.finditer(r"wire_gen\.go:(\d+):\d+: (.*)", out1 + err1):
                ln = int(m.group(1))
                fn = next((re.match(r"(?:func|type) (?:\([^)]*\) )?(\w+)", glines[k]).group(1) for k in range(min(ln, len(glines)) - 1, -1, -1)
                           if re.match(r"(?:func|type) (?:\([^)]*\) )?(\w+)", glines[k])), "?")
                culprits.setdefault(fn, m.group(2))
            for fn, msg in list(culprits.items())[:6]:
                tag = fn.split("_", 1)[-1]
                orig = next((b for b in src.split("\n\n// ") if ("F_" + tag + "(") in b), "")
                fails.append({"stream": "c15-matrix", "why": ["the copy of %s does not compile: %s" % (fn, msg)], "original": orig[:1200],
                              "copied": "\n".join(l for l in _func_text(text, fn))[:1200]})
            if not culprits:
                fails.append({"stream": "c15-matrix", "why": ["the package does not build/run with the copied declarations: " + (out1 + err1)[-800:]]})
            return [], fails
        lines1 = out1.strip().split("\n")
        for c, a, b in zip(calls, lines0, lines1):
            if a != b:
                fails.append({"stream": "c15-matrix", "why": ["the copy of %s prints %r, the original %r" % (c, b, a)], "copied": "\n".join(_func_text(text, c))[:1200]})
        if len(lines0) != len(lines1):
            fails.append({"stream": "c15-matrix", "why": ["outputs differ in length"]})
        # identifiers that are not local entities keep their names: fields and methods
        for nm in NAMES:
            for kind in ("field", "method"):
                fn = "F_%s_%s" % (kind, nm)
                body = "\n".join(_func_text(text, fn))
                want = ("v.%s++" % nm) if kind == "field" else (".%s()" % nm)
                rep.evaluations += 1
                if want not in body:
                    fails.append({"stream": "c15-matrix", "why": ["%s: a %s named %s was renamed in the copy" % (fn, kind, nm)], "copied": body[:800]})
        rep.coverage["c15_matrix"] = {"functions": len(calls), "kinds": len(KINDS), "names": NAMES}
    finally:
        ws.close()
    return [], fails


def _func_text(text, fn):
    out, on = [], False
    for l in text.split("\n"):
        if re.match(r"func (\([^)]*\) )?%s\b" % re.escape(fn), l):
            on = True
        if on:
            out.append(l)
            if l == "}" or (l.startswith("func ") and l.endswith("}")):
                break
    return out
