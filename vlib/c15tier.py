"""C15: declarations copied from an injector file keep their meaning — a corpus of declarations covering
the statement and expression forms of the language (incl. generics) is copied by Wire, compiled, and its
functions are executed with and without the wireinject tag."""
import os
import re

from . import e2e_run as R
from .cmdtier import Workspace, panicked, MOD
from .common import V, GOENV, run

DEP = "package dep\n\ntype A struct{ N int }\n\nfunc NewA() A { return A{N: 7} }\n\nvar Exported = \"dep-exported\"\n"
DEP2 = "package dep\n\ntype B struct{ M string }\n\nfunc NewB() B { return B{M: \"other\"} }\n"
A_GO = ("package corp\n\nimport (\n\t\"example.com/c/corp/dep\"\n\tdepx \"example.com/c/corp/other/dep\"\n)\n\n"
        "type Root struct {\n\tA dep.A\n\tB depx.B\n}\n\nfunc NewRoot(a dep.A, b depx.B) Root { return Root{A: a, B: b} }\n")
MAIN = ("package main\n\nimport (\n\t\"fmt\"\n\n\t\"example.com/c/corp\"\n)\n\nfunc main() {\n\tfor i, s := range corp.RunAll() {\n\t\tfmt.Printf(\"%d: %s\\n\", i, s)\n\t}\n}\n")


def run_c15(rep, tier):
    ws = Workspace()
    fails = []
    try:
        R.build_tools()
        d = ws.root + "/corp"
        os.makedirs(d + "/dep")
        os.makedirs(d + "/other/dep")
        os.makedirs(ws.root + "/cmd/run")
        open(d + "/dep/dep.go", "w").write(DEP)
        open(d + "/other/dep/dep.go", "w").write(DEP2)
        open(d + "/a.go", "w").write(A_GO)
        src = open(V + "/harness/gosrc/corpus/wire.go.txt").read()
        open(d + "/wire.go", "w").write(src)
        open(ws.root + "/cmd/run/main.go", "w").write(MAIN)
        rc0, out0, err0 = run(["go", "run", "-tags", "wireinject", "./cmd/run"], cwd=ws.root, env=dict(GOENV), timeout=300)
        if rc0 != 0:
            fails.append({"stream": "c15", "why": ["corpus does not run with the wireinject tag (harness problem): " + (out0 + err0)[-500:]]})
            return [], fails
        rc, out, err = ws.wire(["gen", "./corp"])
        rep.evaluations += 1
        if rc != 0 or panicked(err):
            fails.append({"stream": "c15", "why": ["wire gen failed on the declaration corpus (rc=%s): %s" % (rc, err[-600:])]})
            return [], fails
        gen = d + "/wire_gen.go"
        ir = R.irparse([gen])[gen]
        srcir = R.irparse([d + "/wire.go"])[d + "/wire.go"]
        want = [o for o in srcir["order"] if o != "func:Init"]
        got = [o for o in ir["order"] if o != "func:Init"]
        if want != got:
            fails.append({"stream": "c15", "why": ["copied declarations are not the source's declarations once each, in order: source %s, generated %s" % (want, got)]})
        rep.coverage["c15_decls"] = len(want)
        rc1, out1, err1 = run(["go", "run", "./cmd/run"], cwd=ws.root, env=dict(GOENV), timeout=300)
        if rc1 != 0:
            fails.append({"stream": "c15", "why": ["the package does not build/run with the copied declarations: " + (out1 + err1)[-800:]],
                          "wire_gen.go": open(gen).read()[:3000]})
        elif out1 != out0:
            fails.append({"stream": "c15", "why": ["copied code behaves differently from the original"], "original": out0[:1500], "copied": out1[:1500]})
        rcv, outv, errv = run(["go", "vet", "./corp"], cwd=ws.root, env=dict(GOENV), timeout=300)
        if rcv != 0:
            fails.append({"stream": "c15", "why": ["go vet rejects the generated package: " + (outv + errv)[-500:]]})
        # doc comments and struct tags survive
        text = open(gen).read()
        for needle in ("// Pair is generic in two parameters.", '`json:"key" wire:"-"`', "// F1 exercises control flow, labels and shadowing.",
                       "// first", "[K comparable, V any]", "Sum[float64]", "Map[int, string]"):
            rep.evaluations += 1
            if needle not in text:
                fails.append({"stream": "c15", "why": ["the copy lost %r" % needle]})
        rep.nontrivial.add("corpus")
        rep.nontrivial.add("corpus-run")
        rep.sample({"decls": want, "output": out1[:400]})
    finally:
        ws.close()
    return [], fails
