"""Per-property check definitions (DESIGN.md §5)."""
from . import leanp, planner, unit
from .common import seed

REGISTRY = {}


def prop(name):
    def deco(f):
        REGISTRY[name] = f
        return f
    return deco


def pre_lean(name, rep):
    """Hook: regenerate the fact tables extracted from /repo before Lean is built."""
    from . import extract
    extract.regenerate(rep)


# ---- planner core -------------------------------------------------------------------------

def planner_streams(tier, graphs_nodes=None, stress=False, n_quick=4000, n_thorough=40000):
    s = seed()
    out = []
    if tier == "quick":
        out.append(("random", "planner", ["-seed", s, "-n", n_quick, "-maxt", 10]))
    else:
        for k in range(4):
            out.append(("random-%d" % k, "planner", ["-seed", s * 1000 + k, "-n", n_thorough // 4, "-maxt", 8 + 3 * k]))
    if graphs_nodes:
        out.append(("all-digraphs", "graphs", ["-seed", s, "-nodes", graphs_nodes[0] if tier == "quick" else graphs_nodes[1]]))
    if stress:
        out.append(("stress", "stress", []))
    return out


def _nt_dups(case, im):
    return any(c.dups and c.imports_ok for c in planner.closures(case))


def _nt_missing(case, im):
    c = planner._plan_ctx(case)
    return c is not None and any(t not in c.src for t in c.reachable(case["out"]))


def _nt_cyclic(case, im):
    return any(c.cyclic for c in planner.closures(case))


def _nt_unused(case, im):
    c = planner._plan_ctx(case)
    return c is not None and im.startswith("err") and "unused" in im


def _nt_calls2(case, im):
    return im.startswith("ok") and len(im.split()) >= 3


def _nt_bind(case, im):
    return any(s["bnds"] for s in case["sets"])


def _nt_accepted(case, im):
    return case["op"] == "plan" and im.startswith("ok")


def planner_prop(name, nontrivial, rule, graphs=None, stress=False, extra_streams=None, group_oracle=None):
    @prop(name)
    def _check(rep, tier):
        rep.coverage["rule"] = rule
        lean_res = leanp.check_props(name)
        broken = unit.lean_part(rep, lean_res)
        streams = planner_streams(tier, graphs, stress)
        if extra_streams:
            streams += extra_streams(tier)
        dis, fails = unit.correspond(rep, name, streams, oracle=planner.ORACLES[name], nontrivial=nontrivial,
                                     group_oracle=group_oracle)
        rep.coverage["exhaustive"] = bool(graphs)
        rep.assumptions += [
            "types are compared by go/types Identical (interned by the harness); go/types itself is trusted",
            "the synthetic ProviderSets built by the harness have the shape the front end produces",
        ]
        unit.conclude(rep, name, broken, dis, fails)
    return _check


planner_prop("C05", _nt_dups,
             "random provider-set DAGs (1-4 nested sets, 2-40 types, all six source kinds, planted duplicates); "
             "non-trivial = a set whose closure has two sources for one type")
planner_prop("C06", _nt_missing,
             "random programs; non-trivial = well-formed set in which a type reachable from the result has no source")
planner_prop("C07", _nt_cyclic,
             "all digraphs with self-loops on <=3 (quick) / <=4 (thorough) nodes x node kinds {provider, field, "
             "binding-aliased}, random DAG programs, diamond lattices and a 2000-chain; non-trivial = cyclic set",
             graphs=(3, 4), stress=True)
planner_prop("C08", _nt_unused,
             "random programs; non-trivial = complete well-formed program with >=1 superfluous direct item")
planner_prop("C02", _nt_calls2,
             "random programs; non-trivial = accepted plan with >=2 calls")
planner_prop("C11", _nt_bind,
             "random programs; non-trivial = program containing an interface binding")
