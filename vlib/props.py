"""Per-property check definitions (DESIGN.md §5)."""
from . import leanp, planner, unit
from .common import seed

REGISTRY = {}


def prop(name):
    def deco(f):
        REGISTRY[name] = f
        return f
    return deco


def pre_lean(name, rep):
    """Hook: regenerate the fact tables extracted from /repo before Lean is built."""
    from . import extract
    extract.regenerate(rep)


# ---- planner core -------------------------------------------------------------------------

def planner_streams(tier, graphs_nodes=None, stress=False, n_quick=4000, n_thorough=40000):
    s = seed()
    out = []
    if tier == "quick":
        out.append(("random", "planner", ["-seed", s, "-n", n_quick, "-maxt", 10]))
    else:
        for k in range(4):
            out.append(("random-%d" % k, "planner", ["-seed", s * 1000 + k, "-n", n_thorough // 4, "-maxt", 8 + 3 * k]))
    # several injectors over shared library sets and provider objects (state must not leak between them)
    out.append(("multi", "multi", ["-seed", s + 5, "-n", 1500 if tier == "quick" else 20000, "-maxt", 10]))
    if graphs_nodes:
        out.append(("all-digraphs", "graphs", ["-seed", s, "-nodes", graphs_nodes[0] if tier == "quick" else graphs_nodes[1]]))
    if stress:
        out.append(("stress", "stress", []))
    return out


def _nt_dups(case, im):
    return any(c.dups and c.imports_ok for c in planner.closures(case))


def _nt_missing(case, im):
    c = planner._plan_ctx(case)
    return c is not None and any(t not in c.src for t in c.reachable(case["out"]))


def _nt_cyclic(case, im):
    return any(c.cyclic for c in planner.closures(case))


def _nt_unused(case, im):
    c = planner._plan_ctx(case)
    return c is not None and im.startswith("err") and "unused" in im


def _nt_calls2(case, im):
    return im.startswith("ok") and len(im.split()) >= 3


def _nt_bind(case, im):
    return any(s["bnds"] for s in case["sets"])


def _nt_accepted(case, im):
    return case["op"] == "plan" and im.startswith("ok")


def planner_part(name, nontrivial, graphs=None, stress=False, group_oracle=None):
    def part(rep, tier):
        streams = planner_streams(tier, graphs, stress)
        dis, fails = unit.correspond(rep, name, streams, oracle=planner.ORACLES[name], nontrivial=nontrivial,
                                     group_oracle=group_oracle)
        if graphs:
            rep.coverage["exhaustive"] = True
        rep.assumptions += [
            "types are compared by go/types Identical (interned by the harness); go/types itself is trusted",
            "the synthetic ProviderSets built by the harness have the shape the front end produces",
        ]
        return dis, fails
    return part


def register(name, rule, parts):
    @prop(name)
    def _check(rep, tier):
        rep.coverage["rule"] = rule
        lean_res = leanp.check_props(name)
        broken = unit.lean_part(rep, lean_res)
        dis, fails = [], []
        for part in parts:
            d, f = part(rep, tier)
            if d is None:
                dis = None if dis == [] else dis
                continue
            if dis is not None:
                dis += d
            fails += f
        unit.conclude(rep, name, broken, dis, fails)
    return _check


def planner_prop(name, nontrivial, rule, graphs=None, stress=False):
    return register(name, rule, [planner_part(name, nontrivial, graphs, stress)])


planner_prop("C05", _nt_dups,
             "random provider-set DAGs (1-4 nested sets, 2-40 types, all six source kinds, planted duplicates); "
             "non-trivial = a set whose closure has two sources for one type")
planner_prop("C06", _nt_missing,
             "random programs; non-trivial = well-formed set in which a type reachable from the result has no source")
planner_prop("C07", _nt_cyclic,
             "all digraphs with self-loops on <=3 (quick) / <=4 (thorough) nodes x node kinds {provider, field, "
             "binding-aliased}, random DAG programs, diamond lattices and a 2000-chain; non-trivial = cyclic set",
             graphs=(3, 4), stress=True)
planner_prop("C08", _nt_unused,
             "random programs; non-trivial = complete well-formed program with >=1 superfluous direct item")



# ---- e2e tier -------------------------------------------------------------------------------

def _tok(reply, prefixes):
    return " ".join(t for t in (reply or "").split() if t.startswith(tuple(prefixes)) or t in ("ok", "err"))


E2E = {
    # name: (profiles, projection(ur) -> [(label, impl, model)], oracle tags, nontrivial(ur), rule)
}


def e2e_part(name, profiles, pairs, tags, nontrivial, n_quick=120, n_thorough=1200, build=True, runit=True, extra=None):
    def _check(rep, tier):
        from . import e2e_eval as EV
        total = n_quick if tier == "quick" else n_thorough
        dis, fails = [], []
        stats = {"programs": 0, "units": 0, "accepted": 0, "rejected": 0, "runs": 0, "batches": 0}
        per = 150
        done = 0
        bno = 0
        while done < total:
            for tag, opts in profiles:
                n = min(per, max(10, (total - done) // max(1, len(profiles))))
                progs = EV.gen_batch(n, opts, "%s%s%d" % (name.lower(), tag, bno))
                units, info = EV.evaluate(progs, want_build=build, want_run=runit)
                stats["batches"] += 1
                stats["programs"] += len(progs)
                stats["invalid_generated"] = stats.get("invalid_generated", 0) + len(info.get("invalid_programs_dropped", []))
                done += len(progs)
                broken_batch = any("generate failed" == x.strip() for x in info["unattributed"])
                if extra and not broken_batch:
                    d2, f2 = extra(rep, units, info)
                    dis += d2
                    fails += f2
                if info["unattributed"]:
                    # wire printed something we could not attribute: for a crash this is C20's
                    # business; here it makes the batch unusable and is reported as a broken tie
                    dis.append({"stream": "e2e-" + tag, "request": None,
                                "why": "unattributed wire output: %s" % info["unattributed"][:3]})
                    if any("generate failed" == x.strip() for x in info["unattributed"]):
                        bno += 1
                        continue        # the packages did not load: nothing in this batch was analysed
                for ur in units:
                    stats["units"] += 1
                    rep.evaluations += 1
                    imp = ur.impl or ""
                    stats["accepted" if imp.startswith("ok") else "rejected"] += 1
                    stats["runs"] += len(ur.runs)
                    if nontrivial(ur):
                        rep.nontrivial.add(ur.request)
                    if stats["units"] <= 3:
                        rep.sample({"program": ur.prog.name, "unit": ur.u.uid, "request": ur.request[:300],
                                    "impl": imp[:300], "model": (ur.model or "")[:300],
                                    "emit": ur.emit_impl, "runs": [(p, a) for p, a, b in ur.run_pairs[:3]]})
                    if imp == "blocked":
                        continue
                    for label, a, b in pairs(ur):
                        if a != b:
                            dis.append({"stream": "e2e-%s/%s" % (tag, label), "request": ur.request, "impl": a, "model": b,
                                        "program": ur.prog.name})
                    bad = [(p, m) for p, m in (ur.run_bad + ur.emit_bad) if p in tags]
                    if "C01" in tags:
                        bad += [("C01", "generation succeeded but the package does not compile: " + m) for m in ur.build_errors[:3]]
                        bad += [("C01", m) for m in ur.ir_problems]
                        if imp in ("missing-injector", "no-output"):
                            bad.append(("C01", "no generated implementation for injector %s (%s)" % (ur.u.inj["name"], imp)))
                    if tags and "C01" not in tags and ur.build_errors and not getattr(ur.u, "planted", None):
                        # the property speaks about the behaviour of the generated injector: one that does not compile has none
                        bad += [(sorted(tags)[0], "wire gen succeeded but the generated injector does not compile: " + m) for m in ur.build_errors[:2]]
                    if "C12" in tags and "C02" not in tags:
                        bad += [("C12", m) for m in ur.ir_problems if "struct" in m or "field" in m or "selection" in m]
                        if any(it["kind"] in ("struct", "field") for it in ur.u.items):
                            # S for *S, F for *F: the wrong form of a struct / field provider's output does not type-check
                            bad += [("C12", "the generated injector over struct / field providers does not compile: " + m)
                                    for m in ur.build_errors[:3] if "cannot use" in m]
                    if "C02" in tags:
                        bad += [("C02", m) for m in ur.ir_problems]
                        bad += [("C02", m) for m in planner.oracle_c02(ur.case, imp)]
                    if bad:
                        fails.append({"stream": "e2e-" + tag, "request": ur.request, "impl": imp, "why": [m for _, m in bad[:4]],
                                      "program": ur.prog.name, "files": EV.G.materialise(ur.prog)})
                bno += 1
        rep.coverage["e2e"] = stats
        rep.coverage["programs"] = stats["programs"]
        rep.coverage["traces_validated_against_impl"] = stats["runs"]
        rep.assumptions += ["the Go compiler, go/packages, go/types and the Go runtime are trusted",
                            "abstract programs are materialised by /verif/vlib/e2e_gen.py; the IR of wire_gen.go is read by harness/irparse"]
        return dis[:50], fails[:50]
    return _check


def e2e_prop(name, profiles, pairs, tags, nontrivial, rule, more_parts=(), **kw):
    return register(name, rule, [e2e_part(name, profiles, pairs, tags, nontrivial, **kw)] + list(more_parts))


def _hooks_part(which):
    def part(rep, tier):
        from . import c04tier
        return c04tier.run_c04(rep, tier, which)
    return part


def _pairs_plan(ur):
    return [("plan", ur.impl, ur.model)]


def _pairs_c03(ur):
    out = [("emit", _tok(ur.emit_impl, ["eb:"]), _tok(ur.emit_model, ["eb:"]))] if ur.emit_impl else []
    out += [("run[%s]" % p, a, b) for p, a, b in ur.run_pairs if p]
    return out


def _pairs_c04(ur):
    out = [("emit", _tok(ur.emit_impl, ["closure:", "retnil:"]), _tok(ur.emit_model, ["closure:", "retnil:"]))] if ur.emit_impl else []
    out += [("run", a, b) for p, a, b in ur.run_pairs if not p]
    return out


def _pairs_c02(ur):
    return [("plan", ur.impl, ur.model)] + [("run", a, b) for p, a, b in ur.run_pairs if not p]


def _has(kinds):
    return lambda ur: any(it["kind"] in kinds for it in ur.u.items) and (ur.impl or "").startswith("ok")


P_DEFAULT = [("d", {})]
P_CLEAN = [("c", {"p_cleanup": 0.7, "p_err": 0.55, "p_func": 0.7, "min_structs": 4, "max_structs": 9, "units": [1, 2]})]

P_NAMES = [("n", {"adversarial": True, "p_err": 0.55, "p_cleanup": 0.6, "p_func": 0.65, "units": [1, 2]}),
           # two packages with one name declaring same-named functions, most providers in the libraries and with cleanups
           ("s", {"adversarial": True, "p_err": 0.5, "p_cleanup": 0.85, "p_func": 0.85, "units": [1, 2], "p_samepkg": 1.0, "p_lib_structs": 0.9,
                  "min_structs": 5, "max_structs": 8})]

P_LONG = [("l", {"min_structs": 13, "max_structs": 16, "p_func": 0.95, "p_cleanup": 0.9, "p_err": 0.5, "units": [1], "p_twin": 0.0})]

e2e_prop("C03", P_CLEAN + P_DEFAULT + P_NAMES + P_LONG, _pairs_c03, {"C03"},
         lambda ur: any(p for p, a, b in ur.run_pairs),
         "generated programs (1-3 injectors, 3-9 struct types, providers with every mix of cleanup/error results, struct/"
         "value/field steps interleaved) run under every single-failure plan, alternating with success runs; "
         "hook-type programs (see C04) under every single-failure plan; "
         "non-trivial = injector executed under at least one failing plan", more_parts=[_hooks_part("C03")])
e2e_prop("C04", P_CLEAN + P_DEFAULT + P_NAMES + P_LONG, _pairs_c04, {"C04"},
         lambda ur: ur.u.inj["cleanup"] and (ur.impl or "").startswith("ok"),
         "same programs, success plans; hook-type programs: 3-7 chained providers of named types of the injector's package whose "
         "derived local names meet the cleanup / error variables (type Cleanup func(), Err, Cleanup2 ...), so that a mix-up is "
         "type-correct and silent; the aggregated cleanup must release exactly the acquired ones, newest first, and call no hook; "
         "non-trivial = accepted injector with a cleanup result", more_parts=[_hooks_part("C04")])
e2e_prop("C01", P_DEFAULT + P_CLEAN, _pairs_plan, {"C01"},
         lambda ur: (ur.impl or "").startswith("ok"),
         "generated multi-package programs; every accepted package is compiled (go build) and every injector is "
         "assigned to a variable of its declared function type; non-trivial = accepted injector")

register("C02",
         "unit tier: random provider-set DAGs through the real solve (non-trivial = accepted plan with >=2 calls); "
         "e2e tier: generated programs, call list parsed from wire_gen.go and run-time traces of instrumented providers "
         "(argument identities) compared with the model and with the declarative wiring oracle",
         [planner_part("C02", _nt_calls2),
          e2e_part("C02", P_DEFAULT + [("p", {"p_extra_params": 0.95, "max_structs": 4, "units": [2, 3], "p_func": 0.2, "p_iface_root": 0.8,
                                                "p_iface_arg": 0.4, "p_conc_arg": 0.8, "p_twin": 0.0}),
                                         # bindings to struct providers (which offer S and *S), marker functions dot-imported / renamed:
                                         # the interface must be fed by exactly the form the binding names
                                         ("w", {"p_func": 0.15, "p_struct": 0.6, "p_extra_fields": 0.9, "units": [1, 2], "p_wire_import_forms": 1.0, "min_structs": 4, "max_structs": 7}),
                                         # adversarial names: a parameter called like the package of its own type, whose type has
                                         # methods looking exactly like that package's provider functions (capture = wrong source)
                                         ("q", {"adversarial": True, "p_extra_params": 0.95, "p_conc_arg": 0.9, "units": [1, 2],
                                                "p_mimic_methods": 1.0, "p_param_pkg": 0.7, "p_lib_structs": 0.8, "p_func": 0.8, "min_structs": 4, "p_wrap_build": 0.8})], _pairs_c02,
                   {"C02", "C11", "C12", "C13"}, lambda ur: len((ur.impl or "").split()) >= 3,
                   n_quick=120, n_thorough=1000),
          # several injectors of one package whose designated sources are values of one type (differing only inside
          # literal braces, or only in the package that wrote them): each gets the value of its own source
          lambda rep, tier: __import__("vlib.c13tier", fromlist=["x"]).run_pairs(rep, tier),
          # the designated source changes in a package two imports away between two runs of gen
          lambda rep, tier: __import__("vlib.c02tier", fromlist=["x"]).run_rewire(rep, tier),
          # one unnamed type written in several ways by its provider and its consumers: one call, one shared value
          lambda rep, tier: __import__("vlib.c02tier", fromlist=["x"]).run_spellings(rep, tier),
          # every field of a struct provider is fed by the designated source, prevented ones by none (even when one exists)
          lambda rep, tier: __import__("vlib.c12tier", fromlist=["x"]).run_prevented_provided(rep, tier)])
register("C11",
         "unit tier: random programs containing interface bindings (non-trivial); e2e tier: value/pointer receivers, "
         "bindings to providers / struct providers / values / arguments / fields, consumers of I and of C; "
         "identity seen by consumers of I = identity produced for C",
         [planner_part("C11", _nt_bind),
          e2e_part("C11", [("b", {"units": [1, 2]})], _pairs_c02, {"C11"},
                   lambda ur: any(it["kind"] == "bind" for it in ur.u.items) and (ur.impl or "").startswith("ok"),
                   n_quick=90, n_thorough=900)])
e2e_prop("C12", [("s", {"p_func": 0.25, "units": [1, 2]})], _pairs_c02, {"C12"},
         _has(("struct", "field")),
         "generated programs rich in wire.Struct (listed fields and \"*\", wire:\"-\" tag on ID) and wire.FieldsOf "
         "(value and pointer parents, pointer-to-field outputs); run-time: which fields are set, with which identity, "
         "and whether the field pointer aliases the parent's field; non-trivial = accepted program with a struct or field provider")


def stream_part(name, streams_fn, nontrivial=None, exhaustive=False):
    def part(rep, tier):
        dis, fails = unit.correspond(rep, name, streams_fn(tier), oracle=planner.ORACLES.get(name), nontrivial=nontrivial)
        if exhaustive:
            rep.coverage["exhaustive"] = True
        return dis, fails
    return part


register("C09",
         "exhaustive: every result list of length 0..4 over 8 result-type varieties (value, error, func(), named func "
         "type, alias of func(), other func type, named error type, basic) through the real funcOutput and "
         "processFuncProvider; every parameter list of length <=4 over three types (spelled afresh per occurrence); "
         "non-trivial = list of length >= 2",
         [stream_part("C09", lambda tier: [("signatures", "sig", ["-nodes", 4])],
                      nontrivial=lambda case, im: len(case.get("raw", [])) >= 3, exhaustive=True)])


def _c14_extra(rep, units, info):
    from . import e2e_names
    dis, n = e2e_names.name_correspondence(units)
    rep.coverage["injectors_named"] = rep.coverage.get("injectors_named", 0) + n
    fails = []
    for ur in units:
        # behaviour must not change under renaming: any oracle failure here is a capture or collision
        bad = [m for _, m in ur.run_bad + ur.emit_bad] + ["does not compile: " + m for m in ur.build_errors[:3]]
        if (ur.impl or "").startswith("err") and not getattr(ur.u, "planted", None):
            bad.append("a well-formed program is rejected once its packages/types/functions are renamed: " + (ur.impl or "")[:200])
        if bad:
            from . import e2e_eval as EV
            fails.append({"stream": "e2e-names", "request": ur.request, "impl": ur.impl, "why": bad[:4],
                          "program": ur.prog.name, "files": EV.G.materialise(ur.prog)})
    return dis, fails


def _c14_paramshadow(rep, tier):
    from . import c20tier
    return c20tier.run_paramshadow(rep, tier)


def _c14_universe(rep, tier):
    from . import c14tier
    from .common import load_findings
    dis, fails, known = c14tier.run_universe(rep, tier)
    for f in load_findings():
        if f["property"] == "C14" and f["status"] == "known" and f["id"] in known:
            rep.known.append("%s: %s" % (f["id"], f["what"]))
            known.discard(f["id"])
    for k in known:
        fails.append({"stream": "c14-universe", "why": ["predeclared identifier captured (not a listed finding): " + k]})
    return dis, fails


register("C14",
         "unit tier: real disambiguate / typeVariableName / export / unexport on names and taken-sets drawn from an "
         "adversarial pool (err, cleanup, keywords and predeclared names in all capitalisations, numeric suffixes); "
         "e2e tier: generated programs whose packages, types, parameters and extra package-level declarations are renamed "
         "from the pool (two packages with one name, parameters named like imports / like derived locals / nil / _ / none); "
         "every binder of every generated injector compared by name with WireV.nameInjector; programs are compiled and run "
         "(behaviour must equal the un-renamed expectation); non-trivial = request mentioning a pool collision / renamed program",
         [stream_part("C14", lambda tier: [("names", "names", ["-seed", seed(), "-n", 20000 if tier == "quick" else 300000])],
                      nontrivial=lambda case, im: len(case.get("raw", [])) >= 3),
          e2e_part("C14", [("n", {"adversarial": True, "p_err": 0.5, "p_cleanup": 0.5})], _pairs_plan, set(),
                   lambda ur: (ur.impl or "").startswith("ok"), n_quick=100, n_thorough=1000, extra=_c14_extra),
          _c14_paramshadow, _c14_universe])


def _c10_part(rep, tier):
    known = set()
    n = 3000 if tier == "quick" else 40000
    streams = [("variants", "perm", ["-seed", seed(), "-n", n, "-maxt", 10])]
    dis, fails = unit.correspond(rep, "C10", streams, oracle=planner.ORACLES["C10"], nontrivial=_nt_accepted,
                                 group_oracle=lambda res: planner.group_oracle_c10(res, known))
    from .common import load_findings
    for f in load_findings():
        if f["property"] == "C10" and f["status"] == "known" and f["id"] in known:
            rep.known.append("%s: %s" % (f["id"], f["what"]))
            known.discard(f["id"])
    for k in known:
        fails.append({"stream": "variants", "why": ["order-dependent acceptance (not a listed finding): " + k]})
    return dis, fails


register("C10",
         "unit tier: accepted random programs, each with 3 permutations of every argument list, its flattening into one "
         "set and a split of the Build set into a nested set (bindings follow their concrete type): identical verdict "
         "and call list required; plus the well-formedness oracle (a program satisfying the documented rules must be "
         "accepted); non-trivial = accepted base program",
         [_c10_part, planner_part("C10", _nt_accepted)])


def _planted_oracle(kind_tokens):
    """e2e oracle for planted defects: the program must be rejected with the right diagnostic class — and a program without
    a planted defect must not be given a diagnostic of that class"""
    classes = tuple(sorted({c for v in kind_tokens.values() for c in ((v,) if isinstance(v, str) else v)}))

    def extra(rep, units, info):
        fails = []
        for ur in units:
            pl = getattr(ur.u, "planted", None)
            # twin injectors share sets and providers: a defect planted in one may reach the other
            kin = [o for o in ur.prog.units if o is not ur.u and (getattr(o, "twin_of", None) is ur.u or getattr(ur.u, "twin_of", None) is o)]
            if not pl and any(getattr(o, "planted", None) for o in kin):
                continue
            if not pl and (ur.impl or "").startswith("err") and not getattr(ur, "ambiguous", False):
                spurious = [t for t in (ur.impl or "").split()[1:] if t.startswith(classes)]
                if spurious:
                    from . import e2e_eval as EV
                    fails.append({"stream": "e2e-wellformed", "request": ur.request, "impl": ur.impl,
                                  "why": ["a program in which every type has exactly one source and every item contributes is rejected: %s | %s"
                                          % (" ".join(spurious)[:200], " ".join(ur.wire_errors)[:300])],
                                  "program": ur.prog.name, "files": EV.G.materialise(ur.prog)})
                continue
            if not pl or pl[0] not in kind_tokens or (ur.impl or "") == "blocked":
                continue
            imp = ur.impl or ""
            want = kind_tokens[pl[0]]
            # "the missing type is named": a type reported as having no provider must indeed have no source in the program as written
            u_ = ur.u
            inv = {n: td for td, n in getattr(u_, "tids", {}).items()}
            for t in imp.split()[1:]:
                if t.startswith("noprov:") and not getattr(ur, "ambiguous", False):
                    try:
                        td = inv.get(int(t.split(":")[1]))
                    except ValueError:
                        td = None
                    if td is not None and (td in u_.src or td in u_.inj["args"]):
                        from . import e2e_eval as EV
                        fails.append({"stream": "e2e-planted", "request": ur.request, "impl": imp,
                                      "why": ["wire reports no provider for %s, a type that the build set does provide (planted: %s): %s"
                                              % (td, pl[1], " ".join(ur.wire_errors)[:300])],
                                      "program": ur.prog.name, "files": EV.G.materialise(ur.prog)})
                        break
            if imp.startswith("ok") or not any(t.startswith(want) for t in imp.split()[1:]):   # want: prefix or tuple of prefixes
                from . import e2e_eval as EV
                fails.append({"stream": "e2e-planted", "request": ur.request, "impl": imp,
                              "why": ["planted defect (%s: %s) but wire answered: %s" % (pl[0], pl[1], imp[:200])],
                              "program": ur.prog.name, "files": EV.G.materialise(ur.prog)})
        return [], fails
    return extra


def _planted(ur):
    return getattr(ur.u, "planted", None) is not None


# re-register the planner properties with an additional source-level (e2e) part
for _name, _kinds, _rule in [
        ("C05", {"dup": "multi:", "dupset": "multi:", "duparg": "multi:", "dupunexp": "multi:"}, "two sources for one type"),
        ("C06", {"missing": ("noprov:", "bindmissing:"), "missingtwin": ("noprov:", "bindmissing:"), "missingform": ("noprov:", "bindmissing:")}, "a needed source removed"),
        ("C08", {"unused": "unused", "twinunused": "unusedprov:", "unusedtwin": "unusedprov:", "emptyinline": "unusedset:"}, "a superfluous direct item")]:
    _unit_nt = {"C05": _nt_dups, "C06": _nt_missing, "C08": _nt_unused}[_name]
    register(_name,
             "unit tier: random provider-set DAGs through the real buildProviderMap/verifyAcyclic/solve (see planner streams); "
             "e2e tier: generated Go programs with a planted defect (%s) run through the real wire binary, diagnostics classified "
             "and compared with the model's verdict; non-trivial = the defect is present" % _rule,
             [planner_part(_name, _unit_nt),
              e2e_part(_name, [("x", {"plant": list(_kinds), "units": [1, 2], "p_twin": 0.6}),
                               # several injectors, spread over several files: a defect in one file is not forgotten because of another
                               ("m", {"plant": list(_kinds), "units": [2, 3], "p_twin": 0.3, "p_multi_file": 1.0, "plant_p": 0.4}),
                               ("y", {"plant": list(_kinds), "units": [1, 2], "adversarial": True, "plant_p": 0.7, "p_samepkg": 0.8,
                                      "max_structs": 9, "min_structs": 6})]
                      # the other form of a binding's concrete type, with the marker functions dot-imported or renamed
                      + ([("w", {"plant": ["missingform", "missing"], "units": [1, 2], "p_twin": 0.0, "plant_p": 0.8,
                                 "p_wire_import_forms": 0.8})] if _name == "C06" else [])
                      # an unexported provider in a library's set against a second source in the importing wire.Build
                      + ([("u", {"plant": ["dupunexp"], "units": [1, 2], "p_twin": 0.0, "plant_p": 1.0, "p_lib_structs": 0.9, "p_func": 0.85,
                                 "min_structs": 5, "max_structs": 9})] if _name == "C05" else []), _pairs_plan, set(), _planted,
                       n_quick=60, n_thorough=600, build=False, runit=False, extra=_planted_oracle(_kinds))]
             + ([lambda rep, tier: __import__("vlib.c02tier", fromlist=["x"]).run_dup_spellings(rep, tier)] if _name == "C05" else [])
             # the removed source is the one of an embedded field of a struct provider ("*" or named)
             + ([lambda rep, tier: __import__("vlib.c12tier", fromlist=["x"]).run_embedded_missing(rep, tier)] if _name == "C06" else []))

register("C07",
         "unit tier: all digraphs with self-loops on <=3 (quick) / <=4 (thorough) nodes x node kinds {provider, field, "
         "binding-aliased}, random DAG programs, diamond lattices and a 2000-chain through the real verifyAcyclic; e2e tier: generated "
         "Go programs with a planted cycle that only exists in the union of two sets, merged by a set without items of its own and "
         "not needed by the injector (the check must run for every set, whatever it consists of); non-trivial = cyclic set",
         [planner_part("C07", _nt_cyclic, (3, 4), True),
          e2e_part("C07", [("x", {"plant": ["cycle2"], "units": [1, 2], "plant_p": 0.8, "p_twin": 0.0}),
                           ("y", {"plant": ["cycle2"], "units": [1, 2], "adversarial": True, "plant_p": 0.8, "p_twin": 0.0})],
                   _pairs_plan, set(), _planted, n_quick=40, n_thorough=400, build=False, runit=False,
                   extra=_planted_oracle({"cycle2": "cycle:"}))])

register("C09",
         "exhaustive: every result list of length 0..4 over 8 result-type varieties (value, error, func(), named func "
         "type, alias of func(), other func type, named error type, basic) through the real funcOutput and "
         "processFuncProvider; every parameter list of length <=4 over three types (spelled afresh per occurrence); "
         "e2e: generated programs whose injector lacks the error / cleanup result a planned provider needs; "
         "non-trivial = list of length >= 2 / planted program",
         [stream_part("C09", lambda tier: [("signatures", "sig", ["-nodes", 4])],
                      nontrivial=lambda case, im: len(case.get("raw", [])) >= 3, exhaustive=True),
          e2e_part("C09", [("g", {"plant": ["neederr", "needcleanup"], "p_err": 0.6, "p_cleanup": 0.6, "units": [1, 2]}),
                           # twin injectors over the same providers: what one injector's signature allows says nothing about the other's
                           ("t", {"plant": ["neederr", "needcleanup"], "p_err": 0.7, "p_cleanup": 0.7, "units": [1, 2], "p_twin": 1.0, "plant_p": 0.5})],
                   _pairs_plan, set(), _planted, n_quick=60, n_thorough=600, build=False, runit=False,
                   extra=_planted_oracle({"neederr": "neederr:", "needcleanup": "needcleanup:"}))])


def _c17_part(rep, tier):
    from . import cmdtier
    return cmdtier.run_c17(rep, tier)


def _c17_tags(rep, tier):
    from . import cmdtier
    return cmdtier.run_tags(rep, tier, "C17")


def _c18_tags(rep, tier):
    from . import cmdtier
    return cmdtier.run_tags(rep, tier, "C18")


def _c18_part(rep, tier):
    from . import cmdtier
    from .common import load_findings
    dis, fails, known = cmdtier.run_c18(rep, tier)
    for f in load_findings():
        if f["property"] == "C18" and f["status"] == "known" and f["id"] in known:
            rep.known.append("%s: %s" % (f["id"], f["what"]))
            known.discard(f["id"])
    for k in known:
        fails.append({"stream": "c18", "why": ["regeneration depends on history (not a listed finding): " + k]})
    return dis, fails


register("C17",
         "real wire binary on 1-4 packages per invocation with kinds {accepted, accepted with error/cleanup, rejected (missing), "
         "rejected (unused), no injectors, not type-correct} x prior output {absent, same, stale, garbage, non-compiling, unwritable}, "
         "commands gen / default form / -header_file (ok, missing) / -output_file_prefix / -tags / diff / check / show; exit status and "
         "the hash of every file of the tree before and after compared with WireV.genExec/diffExec and with the property statement; "
         "non-trivial = mixed package kinds or a pre-existing output file",
         [_c17_part, _c17_tags])
register("C18",
         "random histories (3-12 ops quick, 3-40 thorough) over {switch variant, gen, diff, check, delete output, clobber output with "
         "stale/garbage/non-compiling bytes} on six source variants, executed on the real binary in one directory; exits and final bytes "
         "compared with WireV.runH where the analysis of each variant is taken from a fresh checkout; after every successful gen: output = "
         "fresh-checkout output, second gen is a no-op, diff = 0; non-trivial = history of >= 4 steps",
         [_c18_part, _c18_tags])


def _c20_part(rep, tier):
    from . import c20tier
    from .common import load_findings
    dis, fails = c20tier.run_c20(rep, tier, set())
    known = [f for f in load_findings() if f["property"] == "C20" and f["status"] == "known"]
    keep = []
    for f in fails:
        hit = None
        for k in known:
            m = k["match"]
            if f.get("spelling") in m.get("labels", []) and all(m["message"] in w and "without a diagnostic positioned" in w for w in f["why"]):
                hit = k
        if hit:
            msg = "%s: %s" % (hit["id"], hit["what"])
            if msg not in rep.known:
                rep.known.append(msg)
        else:
            keep.append(f)
    return dis, keep


register("C20",
         "one package per spelling: ~280 ways of writing the arguments of wire.Build/NewSet/Struct/FieldsOf/Bind/Value/InterfaceValue "
         "(identifiers of every object kind, nil, literals, address-of, conversions, calls, anonymous and generic types, non-literal field "
         "names, renamed and dot-imported wire, multi-name var specs) and 28 x 2 injector result types (every Go type kind, named and "
         "unnamed, with an error-returning provider so that the zero value is emitted) and injector shapes; the type-correct ones (go vet "
         "with the wireinject tag) are run through `wire gen` and `wire check`: no panic, status 0 or a diagnostic with file:line:col in "
         "the user's sources; plus the regenerated tables (copyAST node coverage, zeroValue kind coverage) closed by decide; "
         "non-trivial = each type-correct spelling",
         [_c20_part])


def _c16_part(rep, tier):
    from . import c16tier
    fails = c16tier.run_layouts(rep, tier) + c16tier.run_module_configs(rep, tier)
    rep.assumptions += ["go/packages, the module/GOPATH/vendor resolvers and Go map iteration are the real ones (modelled as 'any order')"]
    return [], fails


register("C16",
         "unit tier: real unvendor/isWireImport on paths assembled from segments {vendor, govendor, vendored, ...} and the import block "
         "frame prints for randomly ordered import tables; e2e: generated programs (2-3 injectors, renamed packages, many imports) "
         "regenerated under repeats, another checkout location of different depth, cwd = package dir / module root, patterns . / "
         "none / ./prog/... / import path, alone vs together: byte equality, and no run-specific string in the output; one program "
         "with third-party dependencies in module, GOPATH and GOPATH+vendor mode: byte equality and the package builds; "
         "non-trivial = each generated program / path with a vendor-like segment",
         [stream_part("C16", lambda tier: [("paths", "paths", ["-seed", seed(), "-n", 8000 if tier == "quick" else 100000])],
                      nontrivial=lambda case, im: "vendor" in " ".join(case.get("raw", []))),
          _c16_part,
          # a package named by a list of files must be treated like the same package named by its directory (internal packages: D42)
          lambda rep, tier: _c01_internal(rep, tier)])

register("C12",
         "unit tier: real processStructProvider / processFieldsOf on random struct types (field names differing only in letter case, "
         "every tag variety) and argument lists (interpreted, raw and escaped string literals, \"*\", non-literals); e2e: generated "
         "programs rich in wire.Struct and wire.FieldsOf, run-time inspection of which fields are set, with which identity, and whether "
         "a field pointer aliases the parent's field; non-trivial = request with >= 2 fields / accepted program with struct or field provider",
         [stream_part("C12", lambda tier: [("fields", "fields", ["-seed", seed(), "-n", 15000 if tier == "quick" else 200000])],
                      nontrivial=lambda case, im: len(case.get("raw", [])) >= 9),
          e2e_part("C12", [# many fields selected through pointers, value and pointer form of one field wanted by one consumer
                           ("f", {"p_func": 0.45, "p_field": 0.6, "p_both_forms": 1.0, "units": [2, 3], "min_structs": 5, "max_structs": 9}),
                           ("s", {"p_func": 0.25, "units": [1, 2]}),
                           # S and *S of one struct provider wanted by one provider function
                           ("b", {"p_func": 0.3, "p_both_struct_forms": 1.0, "units": [1, 2]})],
                   _pairs_c02, {"C12"}, _has(("struct", "field")),
                   n_quick=180, n_thorough=1500),
          # fields of empty-interface type: value form and pointer form are mutually assignable
          lambda rep, tier: __import__("vlib.c12tier", fromlist=["x"]).run_empty_iface_fields(rep, tier),
          lambda rep, tier: __import__("vlib.c12tier", fromlist=["x"]).run_prevented_provided(rep, tier),
          # embedded fields are fields: selected by "*", by name, by FieldsOf; rejected when their source is missing
          lambda rep, tier: __import__("vlib.c12tier", fromlist=["x"]).run_embedded(rep, tier)])


def _c13_part(rep, tier):
    from . import c13tier
    return c13tier.run_c13(rep, tier)


def _c13_ivalues(rep, tier):
    # wire.InterfaceValue: interface values that do not implement the interface are rejected (static method sets)
    from . import c11tier
    return c11tier.run_c11(rep, tier, only="ivalue")


def _c13_pairs(rep, tier):
    from . import c13tier
    return c13tier.run_pairs(rep, tier)


register("C13",
         "one package per (expression, where it is written): 50 expression forms of a package-level initialiser (literals, composite "
         "literals of every type kind, conversions incl. to named function types, operators, selectors, indexing, slicing, "
         "dereference, address-of, type assertion, parentheses; calls through functions / methods / values of named function types / "
         "builtins, receives, function literals; interface-typed expressions; unexported identifiers) written in the injector's "
         "package and in a provider set of another package; verdict compared with WireV.processValueOk over the regenerated "
         "whitelist; accepted ones are compiled and run: value = home evaluation, same value/pointer on every call, no function ran; "
         "random nested expressions with the unsafe part at any position; a package with several injectors whose value "
         "expressions have one type and differ only inside literal braces / only in the package they were written in: every "
         "injector must return the value of its own expression; non-trivial = each type-correct (expression, place) pair",
         [_c13_part, _c13_pairs, _c13_ivalues,
          # unit tier: the real accessibleFrom on type-checked random expressions (exported / unexported / local identifiers,
          # internal packages, positional literals of foreign structs) for three target packages, against WireV.accessibleFrom
          stream_part("C13", lambda tier: [("access", "access", ["-seed", seed(), "-n", 8000 if tier == "quick" else 100000])],
                      nontrivial=lambda case, im: case.get("op") == "access" and len(case.get("raw", [])) > 12)])


def _c15_part(rep, tier):
    from . import c15tier
    return c15tier.run_c15(rep, tier)


def _c15_rename(rep, tier):
    # unit tier: the real rewritePkgRefs against WireV.renameOccs, and the binding oracle of the harness
    dis, fails = unit.correspond(rep, "C15", [("rename", "rename", ["-seed", seed(), "-n", 60 if tier == "quick" else 1500])],
                                 nontrivial=planner.rename_changed, group_oracle=planner.group_oracle_c15)
    return dis, fails


def _c15_matrix(rep, tier):
    from . import c15tier
    return c15tier.run_matrix(rep, tier)


register("C15",
         "regenerated tables: every go/ast node kind of the toolchain has a case in copyAST and every child / child-list / value field "
         "of its struct is carried over (decide over the whole table); e2e: a corpus of 20 declarations covering labels, goto, all switch "
         "and select forms, closures, shadowing of names the generated file imports, generics (type parameters, constraints, explicit "
         "instantiation with one and two type arguments), struct tags, doc comments, aliased and same-named imports is copied by wire, "
         "the declaration order is compared, the package is compiled and vetted, and every function is executed with and without the "
         "wireinject tag (identical output required); collision matrix: 25 kinds of local entity (variable, constant, local type, "
         "parameter, named result, receiver, closure parameter, range / type-switch / select / if-init variable, label reached "
         "backwards and forwards, type parameter also used before its declaration, type parameter of a generic type, field, method, "
         "shadowing, recursion, locals already carrying a numeric suffix) x 8 names (import names only the generated file uses, "
         "import names of both files, the source's own aliases, a package-level function) = 200 functions copied, compiled and run "
         "with and without the tag; non-trivial = the corpus run / each matrix function",
         [_c15_part, _c15_matrix, _c15_rename])


def _c19_part(rep, tier):
    from . import c19tier
    return c19tier.run_c19(rep, tier)


register("C19",
         "unit tier: the real gather (cmd/wire, reached through an overlay file) on random accepted provider sets vs WireV.gather; "
         "e2e: generated programs, well-formed or with one planted defect (missing source, duplicate, unused item, missing error / cleanup "
         "result, ill-formed top-level set no injector uses): wire check exit and error classes vs wire gen; wire show output parsed: "
         "listed sets, included named sets, injectors, and the grouping of every provided type under exactly the set of types that must "
         "come from outside (computed declaratively from the abstract program); non-trivial = each program",
         [stream_part("C19", lambda tier: [("gather", "gather", ["-seed", seed(), "-n", 3000 if tier == "quick" else 40000])],
                      nontrivial=lambda case, im: len(im.split()) >= 3),
          _c19_part,
          lambda rep, tier: __import__("vlib.c19tier", fromlist=["x"]).run_nested(rep, tier)])


def _c01_internal(rep, tier):
    from . import c01tier
    return c01tier.run_internal(rep, tier)


def _c01_spellings(rep, tier):
    # unusual spellings that Wire accepts must still yield a package that compiles (and keeps the methods the template had)
    from . import c20tier
    dis, fails = c20tier.run_c20(rep, tier, set(), select=("struct/", "structlit/", "shape", "fieldsof/", "result/", "value/", "ivalue",
                                                           "paramshadow/", "setvar/", "build/", "sets/", "aliashidden/"),
                                 cmds=("gen",), build=True)
    return dis, [f for f in fails if f.get("stream") == "c20-build"]


register("C01",
         "generated multi-package programs (1-3 injectors per package, nested sets across packages, struct/value/field/binding "
         "providers, variadics, renamed and same-named packages): every accepted package is compiled (go build) and every injector is "
         "assigned to a variable of its declared function type; programs with an unexported provider function reached through another "
         "package's set must be rejected; non-trivial = accepted injector / planted program",
         [e2e_part("C01", P_DEFAULT + P_CLEAN + [("a", {"adversarial": True}),
                                                  ("f", {"p_foreign_func": 0.9, "p_func": 0.5, "p_field": 0.3, "units": [1], "max_structs": 5, "p_bridge": 0.9})],
                   _pairs_plan, {"C01"},
                   lambda ur: (ur.impl or "").startswith("ok"), n_quick=150, n_thorough=1500),
          e2e_part("C01", [("u", {"plant": ["unexported"], "plant_p": 1.0, "units": [1, 2], "max_structs": 8})],
                   lambda ur: [] if _planted(ur) else _pairs_plan(ur), {"C01"}, _planted,
                   n_quick=120, n_thorough=800, build=True, runit=False, extra=_planted_oracle({"unexported": "unexported:"})),
          _c01_spellings, _c01_internal,
          # several small packages in one invocation with a header file: each gets its own output, the module builds
          lambda rep, tier: __import__("vlib.c16tier", fromlist=["x"]).run_header_tiny(rep, tier),
          # unit tier: the real importableFrom (internal-package rule) and unvendor against the model
          stream_part("C01", lambda tier: [("paths", "paths", ["-seed", seed(), "-n", 4000 if tier == "quick" else 60000])],
                      nontrivial=lambda case, im: "importable" in case.get("raw", [""])[1:2] or "internal" in " ".join(case.get("raw", []))),
          # unit tier: the real unnameableType on random type trees (defined types of three packages, generic instances, every composite
          # kind) against WireV.unnameable
          stream_part("C01", lambda tier: [("nameable", "nameable", ["-seed", seed(), "-n", 8000 if tier == "quick" else 100000])],
                      nontrivial=lambda case, im: case.get("op") == "nameable" and len(case.get("raw", [])) > 8)])


def _wellformed_extra(rep, units, info):
    """generated programs without a planted defect are well-formed by construction: they must be accepted,
    wired as designated and behave accordingly"""
    fails = []
    for ur in units:
        if getattr(ur.u, "planted", None) or (ur.impl or "") == "blocked":
            continue
        bad = [m for _, m in ur.run_bad] + ["does not compile: " + m for m in ur.build_errors[:3]]
        if (ur.impl or "").startswith("err"):
            bad.append("well-formed program rejected: " + (ur.impl or "")[:200] + " | " + " ".join(ur.wire_errors)[:300])
        if bad:
            from . import e2e_eval as EV
            fails.append({"stream": "e2e-wellformed", "request": ur.request, "impl": ur.impl, "why": bad[:4],
                          "program": ur.prog.name, "files": EV.G.materialise(ur.prog)})
    return [], fails


register("C10",
         "unit tier: accepted random programs, each with 3 permutations of every argument list, its flattening into one "
         "set and a split of the Build set into a nested set (bindings follow their concrete type): identical verdict "
         "and call list required; plus the well-formedness oracle (a program satisfying the documented rules must be "
         "accepted); e2e: well-formed generated programs whose sets are spread over packages, including two packages with the "
         "same package name declaring same-named functions, must be accepted and wired as designated; non-trivial = accepted base program",
         [_c10_part, planner_part("C10", _nt_accepted),
          e2e_part("C10", [("n", {"adversarial": True, "units": [2, 3]}), ("d", {"units": [2, 3]})], _pairs_c02, set(),
                   lambda ur: (ur.impl or "").startswith("ok"), n_quick=100, n_thorough=1000, extra=_wellformed_extra),
          # the same set reached directly, through re-exporting packages that do not import wire, and nested in a facade's set
          lambda rep, tier: __import__("vlib.c10tier", fromlist=["x"]).run_facade(rep, tier),
          lambda rep, tier: __import__("vlib.c10tier", fromlist=["x"]).run_permuted(rep, tier)])


def _c11_matrix(rep, tier):
    from . import c11tier
    return c11tier.run_c11(rep, tier)


register("C11",
         "unit tier: random programs containing interface bindings; e2e tier: value/pointer receivers, bindings to providers / struct "
         "providers / values / arguments / fields, consumers of I and of C (identity seen by consumers of I = identity produced for C); "
         "matrix: 44 (interface, concrete) pairs for wire.Bind and wire.InterfaceValue — value and pointer receivers, promoted methods, "
         "interface-to-interface (superset, subset, unrelated, itself), embedded interfaces, aliases, interfaces and types of another "
         "package — verdict by Go's method-set rules, accepted ones compiled; bind stream: real processBind / processInterfaceValue "
         "on type-checked random declarations (value and pointer receivers, methods promoted from embedded T and *T, shadowed and "
         "ambiguous names, embedded interfaces, wrong arities and shapes, with and without bindToUsePointer) against WireV.processBind; "
         "non-trivial = program with a binding / each pair / accepted bind request",
         [planner_part("C11", _nt_bind),
          e2e_part("C11", [("b", {"units": [1, 2]}),
                           # injectors whose interface result is bound to one of several arguments implementing it
                           ("r", {"p_extra_params": 0.95, "max_structs": 4, "units": [2, 3], "p_func": 0.2, "p_iface_root": 0.9,
                                  "p_iface_arg": 0.6, "p_conc_arg": 0.8, "p_twin": 0.0}),
                           # interfaces bound to the pointer-to-field type that FieldsOf through a pointer provides
                           ("p", {"units": [1, 2], "p_bind_fieldptr": 0.9, "p_field": 0.3, "min_structs": 4, "max_structs": 8})],
                   _pairs_c02, {"C11"},
                   lambda ur: any(it["kind"] == "bind" for it in ur.u.items) and (ur.impl or "").startswith("ok"),
                   n_quick=120, n_thorough=1000),
          _c11_matrix,
          # the front half: real processBind / processInterfaceValue on type-checked random method declarations
          stream_part("C11", lambda tier: [("bind", "bind", ["-seed", seed(), "-n", 12000 if tier == "quick" else 150000])],
                      nontrivial=lambda case, im: case.get("op") == "bind" and im.startswith("ok"))])
