"""C01: fixed module layouts in which what Wire would have to import is restricted by Go's rules for internal packages:
a successful generation must still compile, and a package inside the tree of the internal package must be accepted."""
import os
import re

from .cmdtier import Workspace, panicked, MOD
from .common import GOENV, run

FILES = {
    "lib/internal/impl/impl.go": "package impl\n\ntype T struct{ N int }\n\nfunc NewT() T { return T{N: 1} }\n\nvar V = T{N: 2}\n\ntype S struct{ A T }\n",
    "lib/lib.go": ("package lib\n\nimport (\n\t\"github.com/google/wire\"\n\t\"%s/lib/internal/impl\"\n)\n\ntype T = impl.T\n\ntype S = impl.S\n\n"
                   "var Set = wire.NewSet(impl.NewT)\n\nvar VSet = wire.NewSet(wire.Value(impl.V))\n\n"
                   "var SSet = wire.NewSet(impl.NewT, wire.Struct(new(impl.S), \"*\"))\n\nvar FSet = wire.NewSet(wire.Value(impl.S{}), wire.FieldsOf(new(impl.S), \"A\"))\n") % MOD,
}
INJ = "//go:build wireinject\n// +build wireinject\n\npackage %s\n\nimport (\n\t\"github.com/google/wire\"\n\t\"%s/lib\"\n)\n\nfunc Init() %s {\n\tpanic(wire.Build(%s))\n}\n"
# (directory, result type, build argument, inside the tree rooted at lib/ ?)
CASES = [("app1", "lib.T", "lib.Set", False), ("app2", "lib.T", "lib.VSet", False), ("app3", "lib.S", "lib.SSet", False), ("app4", "lib.T", "lib.FSet", False),
         ("lib/sub1", "lib.T", "lib.Set", True), ("lib/sub2", "lib.T", "lib.VSet", True), ("lib/sub3", "lib.S", "lib.SSet", True),
         ("lib/deep/er/sub4", "lib.T", "lib.FSet", True), ("libx/internal", "lib.T", "lib.Set", False)]


def run_internal(rep, tier):
    ws = Workspace()
    fails = []
    try:
        for rel, src in FILES.items():
            os.makedirs(os.path.dirname(ws.root + "/" + rel), exist_ok=True)
            open(ws.root + "/" + rel, "w").write(src)
        for d, res, arg, inside in CASES:
            os.makedirs(ws.root + "/" + d, exist_ok=True)
            name = re.sub(r"\W", "", d.split("/")[-1])
            open(ws.root + "/" + d + "/p.go", "w").write("package %s\n" % name)
            open(ws.root + "/" + d + "/wire.go", "w").write(INJ % (name, MOD, res, arg))
        results = ws.wire_many([["gen", "./" + d] for d, _, _, _ in CASES], timeout=120)
        for (d, res, arg, inside), (rc, out, err) in zip(CASES, results):
            rep.evaluations += 1
            rep.nontrivial.add("internal:" + d)
            if panicked(err):
                fails.append({"stream": "c01-internal", "why": ["wire panicked on %s: %s" % (d, err[-300:])]})
                continue
            if rc == 0:
                rcb, outb, errb = run(["go", "build", "./" + d], cwd=ws.root, env=dict(GOENV), timeout=300)
                if rcb != 0:
                    gen = open(ws.root + "/" + d + "/wire_gen.go").read() if os.path.exists(ws.root + "/" + d + "/wire_gen.go") else ""
                    fails.append({"stream": "c01-internal", "package": d, "build_argument": arg, "wire_gen.go": gen[:2000],
                                  "why": ["wire gen succeeded for %s (wire.Build(%s)) but the package does not compile: %s"
                                          % (d, arg, (outb + errb).strip()[-300:])]})
            if rc == 0 and inside:
                # the same package named by a list of its files (synthetic path command-line-arguments): same verdict, same bytes
                gp = ws.root + "/" + d + "/wire_gen.go"
                ref = open(gp).read() if os.path.exists(gp) else None
                rc2, out2, err2 = ws.wire(["gen", "p.go", "wire.go"], cwd=ws.root + "/" + d)
                got = open(gp).read() if os.path.exists(gp) else None
                rep.evaluations += 1
                if rc2 != 0 or got != ref:
                    fails.append({"stream": "c01-internal", "package": d, "build_argument": arg,
                                  "why": ["`wire gen .` accepts %s, but `wire gen p.go wire.go` in the same directory %s: %s"
                                          % (d, "fails" if rc2 != 0 else "writes different bytes", err2.strip()[-300:])]})
            if rc == 0:
                pass
            elif inside:
                fails.append({"stream": "c01-internal", "package": d, "build_argument": arg,
                              "why": ["%s lies inside the tree of the internal package and may import it, but wire rejects it: %s" % (d, err.strip()[-300:])]})
            elif not re.search(r"(?m)^wire: %s/\S+\.go:\d+:\d+: " % re.escape(ws.root), err):
                fails.append({"stream": "c01-internal", "package": d, "why": ["rejected without a positioned diagnostic: " + err.strip()[-300:]]})
    finally:
        ws.close()
    return [], fails
