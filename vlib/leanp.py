"""Lean side of a check: build the model + driver, elaborate the property module, audit axioms."""
import os
import re
import time

from .common import LEAN, V, run, log

ALLOWED_AXIOMS = {"propext", "Classical.choice", "Quot.sound"}
FORBIDDEN = re.compile(r"\b(sorry|admit|native_decide|bv_decide|implemented_by|unsafe)\b|^\s*axiom\s|maxHeartbeats\s+0\b", re.M)


def strip_comments(src):
    # remove block comments (nesting-aware) and line comments
    out, i, depth = [], 0, 0
    while i < len(src):
        if src.startswith("/-", i):
            depth += 1
            i += 2
        elif depth and src.startswith("-/", i):
            depth -= 1
            i += 2
        elif depth:
            if src[i] == "\n":
                out.append("\n")
            i += 1
        elif src.startswith("--", i):
            while i < len(src) and src[i] != "\n":
                i += 1
        else:
            out.append(src[i])
            i += 1
    return "".join(out)


def forbidden_tokens():
    """grep the whole Lean tree (comments stripped) for escape hatches."""
    hits = []
    for root, _, files in os.walk(LEAN):
        if "/.lake" in root:
            continue
        for f in files:
            if f.endswith(".lean"):
                p = os.path.join(root, f)
                body = strip_comments(open(p).read())
                # string literals may legitimately contain words; drop them
                body = re.sub(r'"(\\.|[^"\\])*"', '""', body)
                for m in FORBIDDEN.finditer(body):
                    hits.append("%s: %s" % (os.path.relpath(p, LEAN), m.group(0).strip()))
    return hits


def build_model():
    """lake build of the model, the driver executable."""
    t = time.time()
    rc, out, err = run(["lake", "build", "WireV", "wiremodel"], cwd=LEAN, timeout=1500)
    log("lake build WireV wiremodel: rc=%d %.1fs" % (rc, time.time() - t))
    return rc == 0, out + err


def theorem_names(path):
    src = strip_comments(open(path).read())
    names = []
    ns = []
    for line in src.split("\n"):
        m = re.match(r"\s*namespace\s+(\S+)", line)
        if m:
            ns.append(m.group(1))
        m = re.match(r"\s*end\s+(\S+)", line)
        if m and ns and ns[-1] == m.group(1):
            ns.pop()
        m = re.match(r"\s*(?:private\s+|protected\s+)?theorem\s+(\S+)", line)
        if m:
            names.append(".".join(ns + [m.group(1)]))
    return names


def theorem_spans(path):
    """(line, name) of every theorem/example header, for attributing error lines."""
    spans = []
    for i, line in enumerate(open(path).read().split("\n"), 1):
        m = re.match(r"\s*(?:private\s+|protected\s+)?(theorem|example|def|lemma|instance)\s*(\S*)", line)
        if m:
            spans.append((i, m.group(1) + " " + m.group(2)))
    return spans


EXTRA_MODULES = {p: ["Pipeline"] for p in ("C02", "C06", "C08", "C10", "C11")}


def check_props(prop):
    """Elaborate WireP/Props/<prop>.lean (and the shared modules the property relies on) and audit
    the axioms of every theorem in them."""
    res = check_module(prop)
    for extra in EXTRA_MODULES.get(prop, []):
        r2 = check_module(extra)
        res["theorems"] += r2["theorems"]
        res["failed"] += r2["failed"]
        res["axioms"].update(r2["axioms"])
        res["examples"] += r2.get("examples", 0)
        res["log"] += r2["log"]
    return res


def check_module(prop):
    """Returns dict(theorems=[...], failed=[(name, message)], axioms={name: [...]}, log=str)."""
    path = "%s/WireP/Props/%s.lean" % (LEAN, prop)
    res = {"theorems": [], "failed": [], "axioms": {}, "log": "", "examples": 0}
    if not os.path.exists(path):
        res["failed"].append(("(module)", "no property module " + path))
        return res
    names = theorem_names(path)
    res["theorems"] = names
    res["examples"] = len(re.findall(r"^\s*example\b", strip_comments(open(path).read()), re.M))
    t = time.time()
    rc, out, err = run(["lake", "build", "WireP.Props." + prop], cwd=LEAN, timeout=2400)
    log("lake build WireP.Props.%s: rc=%d %.1fs" % (prop, rc, time.time() - t))
    res["log"] = out + err
    if rc != 0:
        spans = theorem_spans(path)
        bad = set()
        for m in re.finditer(r"error: (\S+?\.lean):(\d+):(\d+): (.*)", out + err):
            f, line, msg = m.group(1), int(m.group(2)), m.group(4)
            if f.endswith("Props/%s.lean" % prop):
                owner = "(module)"
                for ln, nm in spans:
                    if ln <= line:
                        owner = nm
                bad.add((owner, msg[:300]))
            else:
                bad.add(("(dependency %s)" % f, msg[:300]))
        if not bad:
            bad.add(("(module)", (out + err)[-600:]))
        res["failed"] = sorted(bad)
        return res
    # audit
    aud = "%s/.lake/audit_%s.lean" % (LEAN, prop)
    with open(aud, "w") as fh:
        fh.write("import WireP.Props.%s\n" % prop)
        for n in names:
            fh.write("#print axioms %s\n" % n)
    rc, out, err = run(["lake", "env", "lean", aud], cwd=LEAN, timeout=600)
    res["log"] += out + err
    cur = None
    text = out.replace("\n  ", " ").replace("\n ", " ")
    for m in re.finditer(r"'([^']+)' (depends on axioms: \[([^\]]*)\]|does not depend on any axioms)", text):
        ax = [a.strip() for a in (m.group(3) or "").split(",") if a.strip()]
        res["axioms"][m.group(1)] = ax
    for n in names:
        if n not in res["axioms"]:
            res["failed"].append((n, "axiom audit produced no line for this theorem"))
        else:
            extra = [a for a in res["axioms"][n] if a not in ALLOWED_AXIOMS]
            if extra:
                res["failed"].append((n, "depends on non-allowed axioms: %s" % extra))
    hits = forbidden_tokens()
    if hits:
        res["failed"].append(("(grep)", "forbidden tokens: %s" % hits[:5]))
    return res
