"""Regenerated fact tables: /verif/extract reads /repo's sources, writes lean/WireV/Generated/*.lean."""


def regenerate(rep):
    return
