"""Regenerated fact tables: /verif/extract reads /repo's sources, writes lean/WireV/Generated/Tables.lean."""
import os

from .common import V, BUILD, REPO, run


def regenerate(rep=None):
    exe = BUILD + "/extract"
    src = V + "/extract/main.go"
    if not os.path.exists(exe) or os.path.getmtime(exe) < os.path.getmtime(src):
        rc, out, err = run(["go", "build", "-o", exe, "."], cwd=V + "/extract")
        if rc != 0:
            raise RuntimeError("extract build failed: " + err)
    rc, out, err = run([exe, REPO, V + "/lean/WireV/Generated/Tables.lean"])
    if rep is not None and rc == 0 and "extract:" in err:
        # a group of tables could not be read off the sources: placeholders were written, and exactly the theorems over
        # that group stop checking (reported as broken obligations of the properties that rest on them)
        rep.coverage["tables_not_extracted"] = [l for l in err.split("\n") if l.startswith("extract:")][:6]
    if rc != 0 and rep is not None:
        rep.violation("extraction", {"what": "the fact extractor no longer recognises the shape of a function it reads "
                                             "(regenerated obligations cannot be stated)", "log": (out + err)[-1500:]}, no_input=True)
    return rc == 0
