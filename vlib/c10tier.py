"""C10: acceptance does not depend on which package declares (or merely re-exports) a provider set.

A provider set of package store is used (a) directly, (b) through `var S = store.Set` of a facade package that does not import
Wire and that is the only package the injector's package imports (types reach it as aliases of the facade), (c) through a
chain of two such facades, (d) through a facade that does import Wire and nests the set.  All must be accepted and behave alike."""
import os
import random

from .cmdtier import Workspace, panicked, MOD
from .common import GOENV, run, seed


def run_facade(rep, tier):
    rng = random.Random(seed() * 733 + 10)
    ncase = 4 if tier == "quick" else 30
    ws = Workspace()
    fails = []
    try:
        cases = []
        for k in range(ncase):
            root = "fa%d" % k
            n = rng.randint(1, 3)
            os.makedirs("%s/%s/store" % (ws.root, root))
            L = ["package store", "", 'import "github.com/google/wire"', ""]
            for i in range(n):
                dep = "" if i == 0 else "d T%d" % (i - 1)
                L.append("type T%d struct{ N int }\n\nfunc NewT%d(%s) T%d { return T%d{N: %d} }\n" % (i, i, dep, i, i, 10 * k + i))
            L.append("type Service struct{ Last T%d }\n\nfunc NewService(t T%d) *Service { return &Service{Last: t} }\n" % (n - 1, n - 1))
            inner = ", ".join("NewT%d" % i for i in range(n - 1))
            if inner and rng.random() < 0.6:
                L.append("var Base = wire.NewSet(%s)\n" % inner)
                L.append("var Set = wire.NewSet(Base, NewT%d, NewService)\n" % (n - 1))
            else:
                L.append("var Set = wire.NewSet(%sNewT%d, NewService)\n" % (inner + ", " if inner else "", n - 1))
            open("%s/%s/store/store.go" % (ws.root, root), "w").write("\n".join(L))
            variants = {}
            # (a) direct
            variants["direct"] = ("%s/%s/store" % (MOD, root), "store", "store.Set", "*store.Service")
            # (b) facade without wire
            os.makedirs("%s/%s/kit" % (ws.root, root))
            open("%s/%s/kit/kit.go" % (ws.root, root), "w").write(
                "package kit\n\nimport \"%s/%s/store\"\n\ntype Service = store.Service\n\nvar StoreSet = store.Set\n" % (MOD, root))
            variants["facade"] = ("%s/%s/kit" % (MOD, root), "kit", "kit.StoreSet", "*kit.Service")
            # (c) facade of a facade
            os.makedirs("%s/%s/kit2" % (ws.root, root))
            open("%s/%s/kit2/kit2.go" % (ws.root, root), "w").write(
                "package kit2\n\nimport \"%s/%s/kit\"\n\ntype Service = kit.Service\n\nvar Everything = kit.StoreSet\n" % (MOD, root))
            variants["facade2"] = ("%s/%s/kit2" % (MOD, root), "kit2", "kit2.Everything", "*kit2.Service")
            # (d) facade that imports wire and nests the set
            os.makedirs("%s/%s/kitw" % (ws.root, root))
            open("%s/%s/kitw/kitw.go" % (ws.root, root), "w").write(
                "package kitw\n\nimport (\n\t\"github.com/google/wire\"\n\t\"%s/%s/store\"\n)\n\ntype Service = store.Service\n\nvar All = wire.NewSet(store.Set)\n" % (MOD, root))
            variants["nested"] = ("%s/%s/kitw" % (MOD, root), "kitw", "kitw.All", "*kitw.Service")
            for v, (imp, q, setexpr, res) in variants.items():
                d = "%s/%s/use%s" % (ws.root, root, v)
                os.makedirs(d)
                open(d + "/p.go", "w").write("package use%s\n" % v)
                open(d + "/wire.go", "w").write(
                    "//go:build wireinject\n// +build wireinject\n\npackage use%s\n\nimport (\n\t\"github.com/google/wire\"\n\t\"%s\"\n)\n\n"
                    "func Init() %s {\n\tpanic(wire.Build(%s))\n}\n" % (v, imp, res, setexpr))
                cases.append((root, v, "%s/use%s" % (root, v), 10 * k + n - 1))
        results = ws.wire_many([["gen", "./" + c[2]] for c in cases], timeout=120)
        ok = []
        for c, (rc, out, err) in zip(cases, results):
            rep.evaluations += 1
            rep.nontrivial.add("facade/" + c[2])
            if panicked(err):
                fails.append({"stream": "c10-facade", "why": ["wire panicked: " + err[-300:]], "package": c[2]})
            elif rc != 0:
                fails.append({"stream": "c10-facade", "package": c[2],
                              "why": ["the same provider set, reached %s, is rejected: %s" % (
                                  {"direct": "directly", "facade": "through `var StoreSet = store.Set` of a package that does not import wire",
                                   "facade2": "through two re-exporting packages", "nested": "nested in a set of a facade"}[c[1]], err.strip()[-300:])]})
            else:
                ok.append(c)
        if ok:
            os.makedirs(ws.root + "/cmd/facade")
            L = ["package main", "", "import (", '\t"fmt"'] + ['\tp%d "%s/%s"' % (i, MOD, c[2]) for i, c in enumerate(ok)] + [")", "", "func main() {"]
            for i, c in enumerate(ok):
                L.append('\tfmt.Println("%s", p%d.Init().Last.N)' % (c[2], i))
            L.append("}")
            open(ws.root + "/cmd/facade/main.go", "w").write("\n".join(L) + "\n")
            rc, out, err = run(["go", "run", "./cmd/facade"], cwd=ws.root, env=dict(GOENV), timeout=300)
            if rc != 0:
                fails.append({"stream": "c10-facade", "why": ["accepted programs do not build / run: " + (out + err)[-400:]]})
            got = dict(l.split() for l in out.strip().split("\n") if len(l.split()) == 2)
            for c in ok:
                if rc == 0 and got.get(c[2]) != str(c[3]):
                    fails.append({"stream": "c10-facade", "package": c[2], "why": ["injector yields %s, expected %s" % (got.get(c[2]), c[3])]})
    finally:
        ws.close()
    return [], fails


PERMUTED = [
    ("func(string, int) string", "func(int, string) string", "func(s string, n int) string { return s }", "func(n int, s string) string { return f(s, n) }",
     'g(3, "abc")', '"abc"'),
    ("struct{ A int; B string }", "struct{ A string; B int }", "struct{ A int; B string }{1, \"x\"}", "struct{ A string; B int }{f.B, f.A}",
     "g.A", '"x"'),
    ("map[string]int", "map[int]string", "map[string]int{\"k\": 7}", "map[int]string{f[\"k\"]: \"k\"}", "g[7]", '"k"'),
    ("func(a, b int) (int, string)", "func(a int, b string) (int, int)", "func(a, b int) (int, string) { return a + b, \"s\" }",
     "func(a int, b string) (int, int) { x, _ := f(a, len(b)); return x, a }", "func() int { x, _ := g(2, \"yy\"); return x }()", "4"),
]


def run_permuted(rep, tier):
    """unnamed types that differ only by a permutation of their components, one built from the other: a well-formed, acyclic program"""
    ws = Workspace()
    fails = []
    try:
        cases = []
        for k, (ta, tb, va, vb, use, want) in enumerate(PERMUTED):
            for order in (0, 1, 2):
                pkg = "pm%d_%d" % (k, order)
                d = ws.root + "/" + pkg
                os.makedirs(d)
                open(d + "/t.go", "w").write(
                    "package %s\n\nimport \"fmt\"\n\ntype App struct{ Out string }\n\nfunc Raw() %s { return %s }\n\nfunc Flip(f %s) %s { return %s }\n\n"
                    "func NewApp(g %s) App { return App{Out: fmt.Sprint(%s)} }\n" % (pkg, ta, va, ta, tb, vb, tb, use))
                items = [["Raw", "Flip", "NewApp"], ["NewApp", "Flip", "Raw"], ["Flip", "NewApp", "Raw"]][order]
                body = "wire.Build(%s)" % ", ".join(items) if order != 2 else "wire.Build(wire.NewSet(NewApp, wire.NewSet(Flip, Raw)))"
                open(d + "/wire.go", "w").write("//go:build wireinject\n// +build wireinject\n\npackage %s\n\nimport \"github.com/google/wire\"\n\n"
                                                "func Init() App {\n\tpanic(%s)\n}\n" % (pkg, body))
                cases.append((pkg, ta, tb, want))
        results = ws.wire_many([["gen", "./" + c[0]] for c in cases], timeout=120)
        ok = []
        for c, (rc, out, err) in zip(cases, results):
            rep.evaluations += 1
            rep.nontrivial.add("permuted/" + c[0])
            if rc != 0 or panicked(err):
                fails.append({"stream": "c10-permuted", "package": c[0],
                              "why": ["a provider of %s built from a provider of %s (different types, no cycle) is rejected: %s" % (c[2], c[1], err.strip()[-300:])]})
            else:
                ok.append(c)
        if ok:
            os.makedirs(ws.root + "/cmd/perm")
            L = ["package main", "", "import (", '\t"fmt"'] + ['\tp%d "%s/%s"' % (i, MOD, c[0]) for i, c in enumerate(ok)] + [")", "", "func main() {"]
            L += ['\tfmt.Printf("%s %%q\\n", p%d.Init().Out)' % (c[0], i) for i, c in enumerate(ok)] + ["}"]
            open(ws.root + "/cmd/perm/main.go", "w").write("\n".join(L) + "\n")
            rc, out, err = run(["go", "run", "./cmd/perm"], cwd=ws.root, env=dict(GOENV), timeout=300)
            if rc != 0:
                fails.append({"stream": "c10-permuted", "why": ["accepted programs do not build / run: " + (out + err)[-400:]]})
            got = dict(l.split(" ", 1) for l in out.strip().split("\n") if " " in l)
            for c in ok:
                if rc == 0 and got.get(c[0]) != '"%s"' % c[3].strip('"'):
                    fails.append({"stream": "c10-permuted", "package": c[0], "why": ["injector yields %s, expected %s" % (got.get(c[0]), c[3])]})
    finally:
        ws.close()
    return [], fails
