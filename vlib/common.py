"""Shared plumbing of the checks: paths, building, running, evidence, violations, findings."""
import hashlib
import json
import os
import shutil
import subprocess
import sys
import tempfile
import time

# VERIF_HOME / VERIF_REPO let a snapshot of this directory decide another checkout (used only by refcheck.py)
V = os.environ.get("VERIF_HOME", "/verif")
REPO = os.environ.get("VERIF_REPO", "/repo")
BUILD = V + "/.build"
LEAN = V + "/lean"
WIRE = BUILD + "/wire"
WIREVERIF = BUILD + "/wireverif"
WIREMODEL = LEAN + "/.lake/build/bin/wiremodel"
WIRESHOW = BUILD + "/wireshow"

GOENV = dict(os.environ, GOFLAGS="-mod=mod", GOPROXY="off", GOSUMDB="off", GOTOOLCHAIN="local",
             GO111MODULE="on", CGO_ENABLED="0")

T0 = time.time()


def seed():
    try:
        return int(os.environ.get("VERIF_SEED", "1"))
    except ValueError:
        return 1


def log(*a):
    print(*a, file=sys.stderr, flush=True)


def run(cmd, cwd=None, env=None, timeout=600, inp=None):
    """Run a command; returns (rc, stdout, stderr); rc = -9 on timeout."""
    try:
        p = subprocess.run(cmd, cwd=cwd, env=env or GOENV, timeout=timeout, input=inp,
                           capture_output=True, text=True, errors="replace")
        return p.returncode, p.stdout, p.stderr
    except subprocess.TimeoutExpired as e:
        out = e.stdout.decode(errors="replace") if isinstance(e.stdout, bytes) else (e.stdout or "")
        err = e.stderr.decode(errors="replace") if isinstance(e.stderr, bytes) else (e.stderr or "")
        return -9, out, err + "\nTIMEOUT"


class BuildState:
    """What could be rebuilt from /repo's working tree in this run."""
    wire_ok = False
    harness_ok = False
    lean_log = ""
    show_ok = False
    show_log = ""
    harness_log = ""
    wire_log = ""


def build_go():
    """Rebuild `wire` and the overlay harness from /repo's current working tree."""
    os.makedirs(BUILD, exist_ok=True)
    rep = {}
    ov = V + "/harness/overlay"
    for f in sorted(os.listdir(ov + "/wire")):
        if f.endswith(".go"):
            rep[REPO + "/internal/wire/" + f] = ov + "/wire/" + f
    rep[REPO + "/cmd/wireverif/main.go"] = ov + "/wireverif/main.go"
    if os.path.isdir(ov + "/cmdwire"):
        for f in sorted(os.listdir(ov + "/cmdwire")):
            if f.endswith(".go"):
                rep[REPO + "/cmd/wire/" + f] = ov + "/cmdwire/" + f
    with open(BUILD + "/overlay.json", "w") as fh:
        json.dump({"Replace": rep}, fh, indent=1)
    st = BuildState
    for p in (WIRE, WIREVERIF):
        if os.path.exists(p):
            os.remove(p)
    rc, out, err = run(["go", "build", "-o", WIRE, "./cmd/wire"], cwd=REPO, timeout=600)
    st.wire_ok, st.wire_log = rc == 0, out + err
    rc, out, err = run(["go", "build", "-tags", "verif", "-overlay", BUILD + "/overlay.json",
                        "-o", WIREVERIF, "./cmd/wireverif"], cwd=REPO, timeout=600)
    st.harness_ok, st.harness_log = rc == 0, out + err
    if os.path.exists(WIRESHOW):
        os.remove(WIRESHOW)
    rc, out, err = run(["go", "build", "-tags", "verif", "-overlay", BUILD + "/overlay.json",
                        "-o", WIRESHOW, "./cmd/wire"], cwd=REPO, timeout=600)
    st.show_ok, st.show_log = rc == 0, out + err
    return st


def scratch(prefix="wv"):
    base = os.environ.get("TMPDIR", "/tmp")
    return tempfile.mkdtemp(prefix=prefix + ".", dir=base)


def rmtree(p):
    shutil.rmtree(p, ignore_errors=True)


def sha(s):
    return hashlib.sha1(s.encode()).hexdigest()[:12]


# ---- violations, findings, evidence -------------------------------------------------------

def load_findings():
    p = V + "/known_findings.json"
    if not os.path.exists(p):
        return []
    with open(p) as fh:
        return json.load(fh)["findings"]


class Report:
    """Collects what a check run covered and what it found."""

    def __init__(self, prop, tier):
        self.prop = prop
        self.tier = tier
        self.violations = []      # (replay_path, suffix)
        self.known = []           # messages
        self.coverage = {"samples": [], "streams": {}}
        self.assumptions = []
        self.obligations = 0
        self.discharged = 0
        self.theorems = []
        self.evaluations = 0
        self.nontrivial = set()
        self.level = "proof"

    def sample(self, s, limit=6):
        if len(self.coverage["samples"]) < limit:
            self.coverage["samples"].append(s)

    def violation(self, name, payload, no_input=False):
        """Write a replay file and remember the violation."""
        d = V + "/replays"
        os.makedirs(d, exist_ok=True)
        path = "%s/%s-%s-%s.json" % (d, self.prop, name, sha(json.dumps(payload, sort_keys=True, default=str)))
        with open(path, "w") as fh:
            json.dump({"property": self.prop, "kind": name, "tier": self.tier, "seed": seed(),
                       "no_failing_input_found": no_input, **payload}, fh, indent=1, default=str)
        self.violations.append((path, " no-failing-input-found" if no_input else ""))

    def finish(self):
        cov = self.coverage
        cov["obligations"] = self.obligations
        cov["discharged"] = self.discharged
        cov["theorems"] = self.theorems
        cov["checker_cmd"] = "cd /verif/lean && lake build WireP.Props.%s WireP.Audit  (Lean 4.33.0 kernel; " \
                             "`#print axioms` of every property theorem checked against {propext, Classical.choice, Quot.sound})" % self.prop
        cov["trusted_base"] = [
            "Lean 4.33.0 kernel", "axioms: propext, Classical.choice, Quot.sound only (audited each run)",
            "statements in lean/WireP/Props/%s.lean" % self.prop,
            "correspondence harness (/verif/harness overlay, /verif/vlib) and fact extractor (/verif/extract)",
            "go/types, go/packages, the Go compiler and runtime (modelled, not verified)"]
        cov["evaluations"] = max(self.evaluations, 1)
        cov["distinct_nontrivial"] = len(self.nontrivial)
        if not cov["samples"]:
            cov["samples"] = ["(no sample recorded)"]
        ev = {"property_id": self.prop, "tier": self.tier, "seed": seed(), "level": self.level,
              "coverage": cov, "assumptions": self.assumptions,
              "wall_s": round(time.time() - T0, 2), "violations": len(self.violations)}
        os.makedirs(V + "/evidence", exist_ok=True)
        with open("%s/evidence/%s.json" % (V, self.prop), "w") as fh:
            json.dump(ev, fh, indent=1, default=str)
        for m in self.known:
            print("KNOWN-FINDING: property=%s %s" % (self.prop, m))
        for path, suffix in self.violations:
            print("VIOLATION property=%s replay=%s%s" % (self.prop, path, suffix))
        sys.stdout.flush()
        return 1 if self.violations else 0
