"""Generic unit-tier check: Lean obligations + model/implementation correspondence on streams,
then the violation protocol of DESIGN.md §8."""
import re

from . import planner
from .common import BuildState, log, seed


def lean_part(rep, lean_res, table_replays=None):
    """Account the Lean obligations; returns list of broken obligations."""
    rep.theorems = lean_res["theorems"]
    rep.obligations = len(lean_res["theorems"])
    failed_names = {n for n, _ in lean_res["failed"]}
    rep.discharged = 0 if any(n.startswith("(") for n in failed_names) else \
        len([t for t in lean_res["theorems"] if not any(t.endswith(f.split(" ")[-1]) for f in failed_names)])
    rep.coverage["axioms"] = lean_res["axioms"]
    rep.coverage["nonvacuity_examples"] = lean_res.get("examples", 0)
    return lean_res["failed"]


def correspond(rep, prop, streams, oracle=None, nontrivial=None, project=None, group_oracle=None):
    """Run every stream, compare model and implementation on the property's projection.

    Returns (disagreements, oracle_failures) — both lists of dicts."""
    project = project or (lambda r: planner.project(prop, r))
    disagreements, failures = [], []
    if not BuildState.harness_ok:
        return None, None
    for name, mode, args in streams:
        if mode == "gather" and not BuildState.show_ok:
            # the overlay file of cmd/wire does not compile against the current tree: this tie is broken, the other parts still run
            disagreements.append({"stream": name, "request": None,
                                  "why": "the overlay harness of cmd/wire does not compile against the current tree: " + BuildState.show_log[-600:]})
            continue
        res = planner.run_stream(mode, args)
        n = len(res["reqs"])
        st = {"cases": n, "mode": mode, "args": [str(a) for a in args], "disagree": 0, "oracle_fail": 0}
        if res.get("n_skipped"):
            st["skipped_inputs"] = {"count": res["n_skipped"], "examples": res.get("skipped", [])[:3]}
            log("stream %s: %d generated inputs were unusable (generator defect): %s" % (name, res["n_skipped"], res.get("skipped", [])[:2]))
        rep.coverage["streams"][name] = st
        if res["rc"] not in (0, 3) or n == 0:
            disagreements.append({"stream": name, "request": None,
                                  "why": "harness failed rc=%s: %s" % (res["rc"], res["err"][-400:])})
            continue
        if len(res["model"]) != n or len(res["impl"]) != n:
            disagreements.append({"stream": name, "request": None,
                                  "why": "stream length mismatch req=%d impl=%d model=%d %s"
                                         % (n, len(res["impl"]), len(res["model"]), res["err"][-300:])})
        classes = {}
        for i in range(min(n, len(res["impl"]), len(res["model"]))):
            req, im, mo = res["reqs"][i], res["impl"][i], res["model"][i]
            rep.evaluations += 1
            case = None
            if oracle or nontrivial:
                try:
                    case = planner.parse_request(req)
                except Exception:
                    case = None
            if nontrivial and case is not None and nontrivial(case, im):
                rep.nontrivial.add(req)
            cls = re.sub(r"[\d,:\[\]]+", "", " ".join(sorted(set(w.split(":")[0] for w in im.split()))))[:60]
            classes[cls] = classes.get(cls, 0) + 1
            if i < 2:
                rep.sample({"stream": name, "request": req[:400], "impl": im[:300], "model": mo[:300]})
            if project(im) != project(mo):
                st["disagree"] += 1
                if len(disagreements) < 50:
                    disagreements.append({"stream": name, "request": req, "impl": im, "model": mo})
            if oracle and case is not None:
                bad = oracle(case, im)
                if bad:
                    st["oracle_fail"] += 1
                    if len(failures) < 50:
                        failures.append({"stream": name, "request": req, "impl": im, "why": bad})
        if group_oracle:
            for f in group_oracle(res):
                st["oracle_fail"] += 1
                if len(failures) < 50:
                    failures.append(dict(f, stream=name))
        st["reply_classes"] = dict(sorted(classes.items(), key=lambda kv: -kv[1])[:12])
        if res["rc"] == 3:
            log("stream %s: harness stopped early (timeout/blow-up in the code under test)" % name)
    return disagreements, failures


def conclude(rep, prop, broken_lean, disagreements, failures, replay_cmd=None):
    """DESIGN §8: turn broken obligations / correspondence into VIOLATION lines."""
    if failures:
        # a concrete failing input on the real code
        seen = set()
        for f in failures[:5]:
            key = str(f.get("why"))[:80]
            if key in seen:
                continue
            seen.add(key)
            rep.violation("input", {"what": "direct oracle failed on the implementation", **f,
                                    "replay": "wireverif line protocol: feed `request` to the harness (mode replay) and compare"})
        return
    if disagreements is None:
        rep.violation("harness", {"what": "the overlay harness does not compile against the current tree: "
                                          "unit-tier correspondence for %s cannot be checked" % prop,
                                  "log": BuildState.harness_log[-1500:]}, no_input=True)
        return
    if disagreements:
        d = disagreements[0]
        rep.violation("correspondence", {"what": "model and implementation disagree; no input violating the "
                                                 "property's direct oracle was found in this run",
                                         "correspondence": d.get("stream"), "first": d,
                                         "count": len(disagreements)}, no_input=True)
    for name, msg in broken_lean:
        rep.violation("obligation", {"what": "Lean obligation no longer checks", "theorem": name, "message": msg},
                      no_input=True)
