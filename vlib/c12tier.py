"""C12: wire.FieldsOf on fields whose type is an empty interface (interface{}, any, a named empty interface): the value form must
yield the value stored in the field, the pointer form (pointer parent) a pointer that aliases the field — `*F` is assignable to an
empty-interface `F`, so a mix-up of the two forms type-checks."""
import os

from .cmdtier import Workspace, panicked, MOD
from .common import GOENV, run

SRC = '''package ef

import "fmt"

type Empty interface{}

type S struct {
	Payload interface{}
	Any     any
	Named   Empty
	N       int
}

var Calls int

func NewS() *S { Calls++; return &S{Payload: "hello", Any: 42, Named: 1.5, N: 7} }

func NewSV() S { return S{Payload: "hello", Any: 42, Named: 1.5, N: 7} }

type App struct {
	Desc string
	PP   *interface{}
	S    *S
}

func describe(v interface{}) string { return fmt.Sprintf("%T:%v", v, v) }

func NewApp(p interface{}, n int, s *S) App { return App{Desc: describe(p), S: s} }

func NewAppBoth(p interface{}, pp *interface{}, s *S) App { return App{Desc: describe(p), PP: pp, S: s} }

func NewAppAny(a Empty, n int) App { return App{Desc: describe(a)} }
'''
INJ = '''//go:build wireinject
// +build wireinject

package ef

import "github.com/google/wire"

func InitValue() App { panic(wire.Build(NewS, wire.FieldsOf(new(*S), "Payload", "N"), NewApp)) }

func InitBoth() App { panic(wire.Build(NewS, wire.FieldsOf(new(*S), "Payload"), NewAppBoth)) }

func InitNamed() App { panic(wire.Build(NewSV, wire.FieldsOf(new(S), "Named", "N"), NewAppAny)) }

func InitNamedPtr() App { panic(wire.Build(NewS, wire.FieldsOf(new(*S), "Named", "N"), NewAppAny)) }
'''
MAIN = '''package main

import (
	"fmt"

	"%s/ef"
)

func main() {
	a := ef.InitValue()
	fmt.Println("value", a.Desc)
	b := ef.InitBoth()
	fmt.Println("both", b.Desc, b.PP == &b.S.Payload)
	fmt.Println("named", ef.InitNamed().Desc)
	fmt.Println("namedptr", ef.InitNamedPtr().Desc)
}
''' % MOD
WANT = ["value string:hello", "both string:hello true", "named float64:1.5", "namedptr float64:1.5"]


def run_empty_iface_fields(rep, tier):
    ws = Workspace()
    fails = []
    try:
        os.makedirs(ws.root + "/ef")
        os.makedirs(ws.root + "/cmd/ef")
        open(ws.root + "/ef/ef.go", "w").write(SRC)
        open(ws.root + "/ef/wire.go", "w").write(INJ)
        open(ws.root + "/cmd/ef/main.go", "w").write(MAIN)
        rc, out, err = ws.wire(["gen", "./ef"])
        rep.evaluations += len(WANT)
        rep.nontrivial.add("empty-iface-fields")
        if rc != 0 or panicked(err):
            return [], [{"stream": "c12-emptyiface", "why": ["wire gen fails on FieldsOf over empty-interface fields: " + err.strip()[-300:]], "source": INJ}]
        rc, out, err = run(["go", "run", "./cmd/ef"], cwd=ws.root, env=dict(GOENV), timeout=300)
        got = [l.strip() for l in out.strip().split("\n")]
        if rc != 0 or got != WANT:
            fails.append({"stream": "c12-emptyiface", "source": INJ, "wire_gen.go": (ws.read("ef") or "")[:2500],
                          "why": ["FieldsOf over fields of empty-interface type: the program %s; consumers observed %s, the fields hold %s"
                                  % ("does not build/run: " + (out + err)[-300:] if rc != 0 else "runs", got, WANT)]})
    finally:
        ws.close()
    return [], fails


SRC2 = '''package pv

type Logger struct{ N int }

type DB struct{ N int }

type Cache struct{ N int }

// blank guard first, then a prevented field whose type the graph provides anyway, then fields to fill
type Server struct {
	_     struct{}
	Log   *Logger `wire:"-"`
	DB    *DB
	_     int
	Cache *Cache `json:"c" wire:"-"`
	Again *Logger
}

func NewLogger() *Logger { return &Logger{N: 1} }

func NewDB() *DB { return &DB{N: 2} }

func NewCache() *Cache { return &Cache{N: 3} }

type App struct {
	S *Server
	L *Logger
	D *DB
	C *Cache
}

func NewApp(s *Server, l *Logger, d *DB, c *Cache) App { return App{s, l, d, c} }
'''
INJ2 = '''//go:build wireinject
// +build wireinject

package pv

import "github.com/google/wire"

func Init() App { panic(wire.Build(NewLogger, NewDB, NewCache, NewApp, wire.Struct(new(Server), "*"))) }
'''
MAIN2 = '''package main

import (
	"fmt"

	"%s/pv"
)

func main() {
	a := pv.Init()
	fmt.Println(a.S.Log == nil, a.S.DB == a.D, a.S.Cache == nil, a.S.Again == a.L)
}
''' % MOD


def run_prevented_provided(rep, tier):
    """wire.Struct(new(S), "*"): a prevented field stays zero even when its type has a provider, the fields around blank and prevented ones
    get exactly the designated values"""
    ws = Workspace()
    fails = []
    try:
        os.makedirs(ws.root + "/pv")
        os.makedirs(ws.root + "/cmd/pv")
        open(ws.root + "/pv/pv.go", "w").write(SRC2)
        open(ws.root + "/pv/wire.go", "w").write(INJ2)
        open(ws.root + "/cmd/pv/main.go", "w").write(MAIN2)
        rc, out, err = ws.wire(["gen", "./pv"])
        rep.evaluations += 4
        rep.nontrivial.add("prevented-provided")
        if rc != 0 or panicked(err):
            return [], [{"stream": "c12-prevented", "why": ["wire gen fails on a struct with blank and prevented fields: " + err.strip()[-300:]], "source": SRC2 + INJ2}]
        rc, out, err = run(["go", "run", "./cmd/pv"], cwd=ws.root, env=dict(GOENV), timeout=300)
        if rc != 0 or out.strip() != "true true true true":
            fails.append({"stream": "c12-prevented", "source": SRC2 + INJ2, "wire_gen.go": (ws.read("pv") or "")[:2000],
                          "why": ["wire.Struct(new(Server), \"*\"): (Log stays nil, DB is the provided DB, Cache stays nil, Again is the provided Logger) = %s %s"
                                  % (out.strip(), (err or "")[-200:] if rc != 0 else "")]})
    finally:
        ws.close()
    return [], fails


# ------------------------------------------------------------------------------------------------------------------------
# embedded fields: for wire.Struct / wire.FieldsOf an embedded field is a field like any other, named by its type's name
SRC3 = '''package em

type Base struct{ N int }

type Ptr struct{ N int }

type Name string

type App struct {
	Base
	*Ptr
	Name Name
}

func NewBase() Base { return Base{N: 1} }

func NewPtr() *Ptr { return &Ptr{N: 2} }

func NewName() Name { return "n" }

func NewApp() App { return App{Base{5}, &Ptr{6}, "made"} }

type Use struct {
	B Base
	P *Ptr
}

func NewUse(b Base, p *Ptr) Use { return Use{b, p} }
'''
HDR3 = '''//go:build wireinject
// +build wireinject

package em

import "github.com/google/wire"

'''
INJ3_OK = HDR3 + '''func InitStar() App { panic(wire.Build(NewBase, NewPtr, NewName, wire.Struct(new(App), "*"))) }

func InitNamed() *App { panic(wire.Build(NewBase, NewPtr, wire.Struct(new(App), "Ptr", "Base"))) }

func InitFields() Use { panic(wire.Build(NewApp, wire.FieldsOf(new(App), "Base", "Ptr"), NewUse)) }
'''
# one needed source removed: the type of an embedded field selected by "*" / by name has no provider
INJ3_MISS = [
    ("star-embedded-value", "Base", HDR3 + 'func Init() App { panic(wire.Build(NewPtr, NewName, wire.Struct(new(App), "*"))) }\n'),
    ("star-embedded-pointer", "Ptr", HDR3 + 'func Init() App { panic(wire.Build(NewBase, NewName, wire.Struct(new(App), "*"))) }\n'),
    ("named-embedded", "Base", HDR3 + 'func Init() App { panic(wire.Build(NewPtr, wire.Struct(new(App), "Base", "Ptr"))) }\n'),
]
MAIN3 = '''package main

import (
	"fmt"

	"%s/em"
)

func main() {
	a := em.InitStar()
	fmt.Println("star", a.Base.N, a.Ptr != nil && a.Ptr.N == 2, a.Name)
	b := em.InitNamed()
	fmt.Println("named", b.Base.N, b.Ptr != nil && b.Ptr.N == 2, b.Name == "")
	u := em.InitFields()
	fmt.Println("fields", u.B.N, u.P != nil && u.P.N == 6)
}
''' % MOD
WANT3 = ["star 1 true n", "named 1 true true", "fields 5 true"]


def run_embedded(rep, tier, only_missing=False):
    """embedded fields of a struct provider / FieldsOf: selected by "*" and by the type's name, fed by the designated source; when
    that source is removed the program is rejected and the missing type named (never left at its zero value)"""
    import re
    fails = []
    if not only_missing:
        ws = Workspace()
        try:
            os.makedirs(ws.root + "/em")
            os.makedirs(ws.root + "/cmd/em")
            open(ws.root + "/em/em.go", "w").write(SRC3)
            open(ws.root + "/em/wire.go", "w").write(INJ3_OK)
            open(ws.root + "/cmd/em/main.go", "w").write(MAIN3)
            rc, out, err = ws.wire(["gen", "./em"])
            rep.evaluations += 3
            rep.nontrivial.add("embedded-fields")
            if rc != 0 or panicked(err):
                fails.append({"stream": "c12-embedded", "why": ["wire gen fails on a struct with embedded fields: " + err.strip()[-300:]],
                              "source": SRC3 + INJ3_OK})
            else:
                rc, out, err = run(["go", "run", "./cmd/em"], cwd=ws.root, env=dict(GOENV), timeout=300)
                if rc != 0 or out.strip().split("\n") != WANT3:
                    fails.append({"stream": "c12-embedded", "source": SRC3 + INJ3_OK, "wire_gen.go": (ws.read("em") or "")[:2000],
                                  "why": ["embedded fields selected by \"*\", by name and by FieldsOf: observed %r, expected %r %s"
                                          % (out.strip().split("\n"), WANT3, (err or "")[-200:] if rc != 0 else "")]})
        finally:
            ws.close()
    for label, missing, inj in INJ3_MISS:
        ws = Workspace()
        try:
            os.makedirs(ws.root + "/em")
            open(ws.root + "/em/em.go", "w").write(SRC3)
            open(ws.root + "/em/wire.go", "w").write(inj)
            rc, out, err = ws.wire(["gen", "./em"])
            rep.evaluations += 1
            rep.nontrivial.add("embedded-missing:" + label)
            why = []
            if panicked(err):
                why.append("wire gen panics: " + err.strip()[-200:])
            if rc == 0:
                why.append("wire gen exits 0 although %s (type of an embedded field of the struct provider) has no source" % missing)
            if not re.search(r"no provider found for \*?[\w./]*em\.%s\b" % missing, err):
                why.append("no diagnostic names the missing type em.%s: %s" % (missing, err.strip()[-200:]))
            if ws.read("em") is not None:
                why.append("wire_gen.go was written: " + ws.read("em")[-400:])
            if why:
                fails.append({"stream": "c12-embedded-missing", "case": label, "source": SRC3 + inj, "why": why})
        finally:
            ws.close()
    return [], fails


def run_embedded_missing(rep, tier):
    return run_embedded(rep, tier, only_missing=True)
