"""C12: wire.FieldsOf on fields whose type is an empty interface (interface{}, any, a named empty interface): the value form must
yield the value stored in the field, the pointer form (pointer parent) a pointer that aliases the field — `*F` is assignable to an
empty-interface `F`, so a mix-up of the two forms type-checks."""
import os

from .cmdtier import Workspace, panicked, MOD
from .common import GOENV, run

SRC = '''package ef

import "fmt"

type Empty interface{}

type S struct {
	Payload interface{}
	Any     any
	Named   Empty
	N       int
}

var Calls int

func NewS() *S { Calls++; return &S{Payload: "hello", Any: 42, Named: 1.5, N: 7} }

func NewSV() S { return S{Payload: "hello", Any: 42, Named: 1.5, N: 7} }

type App struct {
	Desc string
	PP   *interface{}
	S    *S
}

func describe(v interface{}) string { return fmt.Sprintf("%T:%v", v, v) }

func NewApp(p interface{}, n int, s *S) App { return App{Desc: describe(p), S: s} }

func NewAppBoth(p interface{}, pp *interface{}, s *S) App { return App{Desc: describe(p), PP: pp, S: s} }

func NewAppAny(a Empty, n int) App { return App{Desc: describe(a)} }
'''
INJ = '''//go:build wireinject
// +build wireinject

package ef

import "github.com/google/wire"

func InitValue() App { panic(wire.Build(NewS, wire.FieldsOf(new(*S), "Payload", "N"), NewApp)) }

func InitBoth() App { panic(wire.Build(NewS, wire.FieldsOf(new(*S), "Payload"), NewAppBoth)) }

func InitNamed() App { panic(wire.Build(NewSV, wire.FieldsOf(new(S), "Named", "N"), NewAppAny)) }

func InitNamedPtr() App { panic(wire.Build(NewS, wire.FieldsOf(new(*S), "Named", "N"), NewAppAny)) }
'''
MAIN = '''package main

import (
	"fmt"

	"%s/ef"
)

func main() {
	a := ef.InitValue()
	fmt.Println("value", a.Desc)
	b := ef.InitBoth()
	fmt.Println("both", b.Desc, b.PP == &b.S.Payload)
	fmt.Println("named", ef.InitNamed().Desc)
	fmt.Println("namedptr", ef.InitNamedPtr().Desc)
}
''' % MOD
WANT = ["value string:hello", "both string:hello true", "named float64:1.5", "namedptr float64:1.5"]


def run_empty_iface_fields(rep, tier):
    ws = Workspace()
    fails = []
    try:
        os.makedirs(ws.root + "/ef")
        os.makedirs(ws.root + "/cmd/ef")
        open(ws.root + "/ef/ef.go", "w").write(SRC)
        open(ws.root + "/ef/wire.go", "w").write(INJ)
        open(ws.root + "/cmd/ef/main.go", "w").write(MAIN)
        rc, out, err = ws.wire(["gen", "./ef"])
        rep.evaluations += len(WANT)
        rep.nontrivial.add("empty-iface-fields")
        if rc != 0 or panicked(err):
            return [], [{"stream": "c12-emptyiface", "why": ["wire gen fails on FieldsOf over empty-interface fields: " + err.strip()[-300:]], "source": INJ}]
        rc, out, err = run(["go", "run", "./cmd/ef"], cwd=ws.root, env=dict(GOENV), timeout=300)
        got = [l.strip() for l in out.strip().split("\n")]
        if rc != 0 or got != WANT:
            fails.append({"stream": "c12-emptyiface", "source": INJ, "wire_gen.go": (ws.read("ef") or "")[:2500],
                          "why": ["FieldsOf over fields of empty-interface type: the program %s; consumers observed %s, the fields hold %s"
                                  % ("does not build/run: " + (out + err)[-300:] if rc != 0 else "runs", got, WANT)]})
    finally:
        ws.close()
    return [], fails
