"""Unit-tier planner streams: request parsing, independent oracles, per-property projections.

The oracles below are a *declarative* re-statement of the properties over the abstract case
(they do not share code with the Lean model or with Wire): they are used to look for a concrete
failing input once the correspondence or a proof obligation breaks, and as a guard against a
model that is tidy but wrong."""
import os
import re

from .common import WIREVERIF, WIREMODEL, run, scratch, rmtree, log


class Rd:
    def __init__(self, toks):
        self.t, self.i = toks, 0

    def nat(self):
        v = self.t[self.i]
        self.i += 1
        return v

    def many(self, f):
        return [f() for _ in range(self.nat())]


def parse_request(line):
    ws = line.split()
    if ws and ws[0] not in ("plan", "sets", "gather"):
        return {"op": ws[0], "raw": ws, "sets": []}
    op, r = ws[0], Rd([int(x) for x in ws[1:]])
    order = r.many(r.nat)

    def prov():
        d = {"id": r.nat(), "args": r.many(r.nat), "outs": r.many(r.nat)}
        d["isStruct"], d["varargs"], d["hasCleanup"], d["hasErr"] = [bool(r.nat()) for _ in range(4)]
        return d

    def val():
        return {"id": r.nat(), "out": r.nat()}

    def fld():
        return {"id": r.nat(), "parent": r.nat(), "outs": r.many(r.nat)}

    def bnd():
        return {"id": r.nat(), "iface": r.nat(), "provided": r.nat()}

    def pset():
        s = {"id": r.nat()}
        s["args"] = r.many(r.nat) if r.nat() else None
        s["imports"] = r.many(r.nat)
        s["provs"] = r.many(prov)
        s["vals"] = r.many(val)
        s["flds"] = r.many(fld)
        s["bnds"] = r.many(bnd)
        return s

    sets = r.many(pset)
    case = {"op": op, "order": order, "sets": sets}
    if op == "plan":
        case["out"] = r.nat()
    if op == "gather":
        case["outputs"] = r.many(r.nat)
        case["raw"] = ws
    return case


# ---- declarative view of a set's closure --------------------------------------------------

class Closure:
    """Flattened view of everything reachable from set k through imports."""

    def __init__(self, case, k, memo):
        s = case["sets"][k]
        self.s = s
        self.src = {}          # type -> list of (kind, id, deps, owner-direct-item)
        self.imports_ok = True
        self.chained = False
        self.bind_missing = []
        add = lambda t, e: self.src.setdefault(t, []).append(e)
        if s["args"] is not None:
            for i, t in enumerate(s["args"]):
                add(t, ("arg", i, [], ("arg", i)))
        for i in s["imports"]:
            sub = memo[i]
            if not sub.valid or sub.chained:
                # (a chained binding is accepted or not depending on its position, finding D12:
                #  the oracles make no prediction about such sets or anything importing them)
                self.imports_ok = False
            for t, es in sub.src.items():
                for e in es:
                    add(t, (e[0], e[1], e[2], ("imp", case["sets"][i]["id"])))
        for p in s["provs"]:
            for t in p["outs"]:
                add(t, ("prov", p["id"], p["args"], ("prov", p["id"])))
        for v in s["vals"]:
            add(v["out"], ("val", v["id"], [], ("val", v["id"])))
        for f in s["flds"]:
            for t in f["outs"]:
                add(t, ("fld", f["id"], [f["parent"]], ("fld", f["id"])))
        own_bnd_ifaces = {b["iface"] for b in s["bnds"]}
        for b in s["bnds"]:
            add(b["iface"], ("bnd", b["id"], [b["provided"]], ("bnd", b["id"])))
            if b["provided"] in own_bnd_ifaces:
                self.chained = True
        for b in s["bnds"]:
            if not [e for e in self.src.get(b["provided"], [])]:
                self.bind_missing.append(b)
        self.dups = sorted(t for t, es in self.src.items() if len(es) > 1)
        self.cyclic = None
        if self.imports_ok and not self.dups and not self.bind_missing:
            self.cyclic = self._has_cycle()
        self.valid = self.imports_ok and not self.dups and not self.bind_missing and self.cyclic is False

    def deps(self, t):
        es = self.src.get(t)
        return es[0][2] if es else []

    def _has_cycle(self):
        color = {}
        for root in self.src:
            if root in color:
                continue
            stack = [(root, iter(self.deps(root)))]
            color[root] = 1
            while stack:
                node, it = stack[-1]
                adv = False
                for d in it:
                    c = color.get(d, 0)
                    if c == 1:
                        return True
                    if c == 0:
                        color[d] = 1
                        stack.append((d, iter(self.deps(d))))
                        adv = True
                        break
                if not adv:
                    color[node] = 2
                    stack.pop()
        return False

    def resolve(self, t):
        seen = set()
        while t in self.src and self.src[t][0][0] == "bnd" and t not in seen:
            seen.add(t)
            t = self.src[t][0][2][0]
        return t

    def reachable(self, out):
        seen, todo = set(), [out]
        while todo:
            t = todo.pop()
            if t in seen:
                continue
            seen.add(t)
            todo.extend(self.deps(t))
        return seen


def closures(case):
    memo = []
    for k in range(len(case["sets"])):
        memo.append(Closure(case, k, memo))
    return memo


def parse_reply(reply):
    """-> (verdict, tokens) where verdict in ok/err/other"""
    ws = reply.split()
    if not ws:
        return "other", []
    return (ws[0] if ws[0] in ("ok", "err") else "other"), ws[1:]


def split_sets_reply(reply):
    out = {}
    for part in reply.split(" | "):
        m = re.match(r"set (\d+) (.*)$", part.strip())
        if m:
            out[int(m.group(1))] = m.group(2)
    return out


def per_set_replies(case, reply):
    """list of (set position, reply-for-that-set) that the implementation produced"""
    if case["op"] == "sets":
        d = split_sets_reply(reply)
        return [(k, d.get(s["id"], "")) for k, s in enumerate(case["sets"])]
    return [(len(case["sets"]) - 1, reply)]


# ---- oracles: return list of failure descriptions (empty = property holds on this case) -----

def oracle_c05(case, reply):
    bad = []
    cl = closures(case)
    for k, rep in per_set_replies(case, reply):
        c = cl[k]
        verdict, toks = parse_reply(rep)
        multis = [int(t.split(":")[1]) for t in toks if t.startswith("multi:")]
        if verdict == "other":
            continue
        for t in multis:
            if t not in c.dups:
                bad.append("set %d: multiple-bindings error names type %d which has a single source" % (c.s["id"], t))
        if c.imports_ok and c.dups and not c.bind_missing and not c.chained:
            # (a binding whose concrete type is missing is not a source: buildProviderMap reports the
            #  binding error instead and never registers it — cf. the hypothesis of C05.bpm_dup_named)
            if verdict == "ok":
                bad.append("set %d accepted although types %s have two sources" % (c.s["id"], c.dups))
            elif not multis:
                bad.append("set %d rejected without a multiple-bindings error for %s: %s" % (c.s["id"], c.dups, rep))
    return bad


def oracle_c07(case, reply):
    bad = []
    if reply in ("timeout", "blowup heap"):
        return ["analysis did not terminate: " + reply]
    cl = closures(case)
    for k, rep in per_set_replies(case, reply):
        c = cl[k]
        if c.cyclic is None or c.chained:
            continue
        verdict, toks = parse_reply(rep)
        cyc = [t for t in toks if t.startswith("cycle:")]
        if c.cyclic and (verdict == "ok" or not cyc):
            bad.append("set %d has a dependency cycle but no cycle error: %s" % (c.s["id"], rep[:200]))
        if not c.cyclic and cyc:
            bad.append("set %d is acyclic but a cycle was reported: %s" % (c.s["id"], cyc))
        for t in cyc:
            tr = [int(x) for x in t.split(":")[1].split(",") if x]
            if len(tr) < 2 or tr[0] != tr[-1] or any(b not in c.deps(a) and b not in c.deps(c.resolve(a))
                                                    for a, b in zip(tr, tr[1:])):
                bad.append("set %d: reported trail %s is not a cycle of the provider graph" % (c.s["id"], tr))
    return bad


def _plan_ctx(case):
    if case["op"] != "plan":
        return None
    cl = closures(case)
    c = cl[-1]
    if not c.valid or c.chained:
        return None
    return c


def oracle_c06(case, reply):
    c = _plan_ctx(case)
    if c is None:
        return []
    verdict, toks = parse_reply(reply)
    if verdict == "other":
        return []
    need = c.reachable(case["out"])
    missing = sorted(t for t in need if t not in c.src)
    nop = [int(t.split(":")[1]) for t in toks if t.startswith("noprov:")]
    bad = []
    if missing:
        if verdict == "ok":
            bad.append("accepted although needed types %s have no source" % missing)
        elif not nop:
            bad.append("rejected without naming a missing type (missing %s): %s" % (missing, reply[:200]))
    for t in nop:
        if t not in missing:
            bad.append("no-provider error names type %d which is provided or not needed" % t)
    return bad


def _direct_items(s, case):
    items = [("imp", case["sets"][i]["id"]) for i in s["imports"]]
    items += [("prov", p["id"]) for p in s["provs"]] + [("val", v["id"]) for v in s["vals"]]
    items += [("bnd", b["id"]) for b in s["bnds"]] + [("fld", f["id"]) for f in s["flds"]]
    return items


def oracle_c08(case, reply):
    c = _plan_ctx(case)
    if c is None:
        return []
    verdict, toks = parse_reply(reply)
    need = c.reachable(case["out"])
    if verdict == "other" or any(t not in c.src for t in need):
        return []
    given = set(c.s["args"] or [])
    used = set()
    for t in need:
        if t in given:
            continue
        used.add(c.src[t][0][3])
    unused = sorted(set(x for x in _direct_items(c.s, case) if x not in used))
    names = {"imp": "unusedset", "prov": "unusedprov", "val": "unusedval", "bnd": "unusedbnd", "fld": "unusedfld"}
    want = sorted(set("%s:%d" % (names[k], i) for k, i in unused))
    got = sorted(set(t for t in toks if t.startswith("unused")))
    bad = []
    if want and verdict == "ok":
        bad.append("accepted although direct items %s do not contribute" % want)
    elif want != got:
        bad.append("unused items: expected %s, reported %s" % (want, got))
    return bad


def parse_calls(toks):
    calls = []
    for t in toks:
        m = re.match(r"(\w+):(\d+):(-?\d+):\[([\d,]*)\]:\[([\d,]*)\]:(\d)(\d)(\d)(\d)$", t)
        if not m:
            return None
        calls.append({"kind": m.group(1), "out": int(m.group(2)), "src": int(m.group(3)),
                      "args": [int(x) for x in m.group(4).split(",") if x],
                      "ins": [int(x) for x in m.group(5).split(",") if x],
                      "varargs": m.group(6) == "1", "hasCleanup": m.group(7) == "1",
                      "hasErr": m.group(8) == "1", "ptr": m.group(9) == "1"})
    return calls


def oracle_c02(case, reply):
    """wiring of an accepted plan (also covers the instance sharing of C11)"""
    c = _plan_ctx(case)
    if c is None:
        return []
    verdict, toks = parse_reply(reply)
    if verdict != "ok":
        return []
    calls = parse_calls(toks)
    if calls is None:
        return ["unparseable call list: " + reply[:200]]
    bad = []
    given = c.s["args"] or []
    ng = len(given)
    produced = list(given) + [cl["out"] for cl in calls]     # type held by local variable n
    need = c.reachable(case["out"])
    outs = [cl["out"] for cl in calls]
    if len(set(outs)) != len(outs):
        bad.append("a type is constructed twice: %s" % outs)
    ids = [(cl["kind"], cl["src"]) for cl in calls if cl["kind"] == "func"]
    if len(set(ids)) != len(ids):
        bad.append("a provider function is called twice: %s" % ids)
    kindmap = {"prov": ("func", "struct"), "val": ("value",), "fld": ("field",)}
    for pos, cl in enumerate(calls):
        t = cl["out"]
        if t not in need:
            bad.append("call %d constructs type %d which the result does not depend on" % (pos, t))
        es = c.src.get(t)
        if not es or es[0][0] not in kindmap or cl["kind"] not in kindmap[es[0][0]] or es[0][1] != cl["src"]:
            bad.append("call %d for type %d does not use the designated source %s" % (pos, t, es))
            continue
        deps = es[0][2]
        if len(cl["args"]) != len(deps):
            bad.append("call %d has %d arguments for %d dependencies" % (pos, len(cl["args"]), len(deps)))
            continue
        for j, (a, d) in enumerate(zip(cl["args"], deps)):
            if a >= ng + pos:
                bad.append("call %d argument %d uses variable %d defined later" % (pos, j, a))
            elif produced[a] != c.resolve(d):
                bad.append("call %d argument %d (type %d) receives the variable of type %d, expected the source of %d"
                           % (pos, j, d, produced[a], c.resolve(d)))
    rt = c.resolve(case["out"])
    if calls:
        if calls[-1]["out"] != rt:
            bad.append("injector returns the variable of type %d, expected %d" % (calls[-1]["out"], rt))
    elif rt not in given:
        bad.append("no calls although the result type %d is not an injector argument" % rt)
    # every needed constructed type has a call
    for t in need:
        es = c.src.get(t)
        if es and es[0][0] in kindmap and t not in outs:
            bad.append("needed type %d (source %s) is never constructed" % (t, es[0][:2]))
    return bad


def oracle_c11(case, reply):
    """bindings need a co-located concrete type; interface deps are never satisfied implicitly"""
    bad = []
    cl = closures(case)
    for k, rep in per_set_replies(case, reply):
        c = cl[k]
        verdict, toks = parse_reply(rep)
        if verdict == "other" or not c.imports_ok or c.chained:
            continue
        if c.bind_missing and not c.dups:
            if verdict == "ok":
                bad.append("set %d accepted although binding(s) %s have no concrete provider in the set"
                           % (c.s["id"], [b["id"] for b in c.bind_missing]))
            elif not [t for t in toks if t.startswith("bindmissing:")] and not [t for t in toks if t.startswith("multi:")]:
                bad.append("set %d rejected without a binding diagnostic: %s" % (c.s["id"], rep[:200]))
        # two bindings of one interface to different concrete types in the same set: which value would "every dependency on I" get?
        seen_b = {}
        for b in c.s.get("bnds", []):
            if b["iface"] in seen_b and verdict == "ok":
                bad.append("set %d accepted although it binds interface %d twice (to %d and to %d)"
                           % (c.s["id"], b["iface"], seen_b[b["iface"]], b["provided"]))
            seen_b.setdefault(b["iface"], b["provided"])
        for t in toks:
            if t.startswith("bindmissing:"):
                i, p = [int(x) for x in t.split(":")[1:]]
                if not any(b["iface"] == i and b["provided"] == p for b in c.bind_missing):
                    bad.append("set %d: binding %d->%d reported as lacking a concrete provider, but one exists" % (c.s["id"], i, p))
    return bad + oracle_c02(case, reply)


def oracle_c10(case, reply):
    """a well-formed program must be accepted"""
    c = _plan_ctx(case)
    if c is None:
        return []
    verdict, toks = parse_reply(reply)
    if verdict != "err":
        return []
    need = c.reachable(case["out"])
    if any(t not in c.src for t in need):
        return []
    if oracle_c08(case, "ok") or c.chained:
        return []
    # remaining legality conditions are signature-level (cleanup/err), not visible to the planner
    return ["well-formed program rejected: " + reply[:300]]


def oracle_c09(case, reply):
    """case = raw request words for sig/dupparam streams"""
    ws = case["raw"]
    if ws[0] == "sig":
        ks = [int(x) for x in ws[1:]]
        n = len(ks)
        if n == 0:
            want = "err noreturn"
        elif n == 1:
            want = "ok 00"
        elif n == 2:
            want = {1: "ok 01", 2: "ok 10"}.get(ks[1], "err second")
        elif n == 3:
            want = "err second" if ks[1] != 2 else ("err third" if ks[2] != 1 else "ok 11")
        else:
            want = "err toomany"
        if reply.startswith("ok") != want.startswith("ok"):
            return ["result list %s: %s, the rules say %s" % (ks, reply, want)]
        if reply.startswith("ok") and reply != want:
            return ["result list %s: flags %s, expected %s" % (ks, reply, want)]
        return []
    if ws[0] == "dupparam":
        ts = ws[1:]
        dup = len(set(ts)) != len(ts)
        if dup and reply.startswith("ok"):
            return ["parameter list %s with identical types accepted" % ts]
        if not dup and not reply.startswith("ok"):
            return ["parameter list %s without duplicates rejected: %s" % (ts, reply)]
    return []


def oracle_c12(case, reply):
    """field selection, restated: case = raw `fields` request"""
    ws = case["raw"]
    if ws[0] != "fields":
        return []
    mode, nf = ws[1], int(ws[2])
    fs = [(ws[3 + 4 * i][1:], ws[4 + 4 * i], ws[5 + 4 * i] == "1", ws[6 + 4 * i] == "1") for i in range(nf)]
    args = ws[3 + 4 * nf:]

    def pick(a):
        if a == "?":
            return "notstring"
        nm = a[1:]
        for f in fs:
            if f[0] == nm and nm != "_":       # a blank field cannot be referred to (Go spec)
                return "prevented" if f[2] else f
        return "notfield"
    want = None
    if mode == "fieldsof" and nf < len(args):
        want = "err toomany"
    elif mode == "struct" and args == ["=*"]:
        sel = [f for f in fs if not f[2] and f[0] != "_"]
        if any(f[3] for f in sel):
            want = "err hidden"      # an unexported field of another package's struct cannot be set
    else:
        sel = []
        for a in args:
            r = pick(a)
            if isinstance(r, str):
                want = "err " + r
                break
            if mode == "struct" and r[3]:
                want = "err hidden"
                break
            sel.append(r)
    if want is None:
        tys = [f[1] for f in sel]
        if mode == "struct" and len(set(tys)) != len(tys):
            want = "err dup"
        else:
            want = ("ok " + " ".join("%s:%s" % (f[0], f[1]) for f in sel)).strip()
    got = reply.split(":")[0] if reply.startswith("err dup") else reply
    if got != want:
        return ["fields %s of %s with arguments %s: wire answers %r, the rule says %r" % (mode, fs, args, reply, want)]
    return []


def oracle_c19(case, reply):
    """`wire show` groups every type a set provides under exactly the set of types that must come from outside:
    the types reachable through the (unique) sources' dependencies that the set does not provide"""
    if case.get("op") != "gather":
        return []
    c = closures(case)[-1]
    if not c.valid or c.chained:
        return []
    groups = {}
    for t in case["outputs"]:
        ins, seen, todo = set(), set(), [t]
        while todo:
            x = todo.pop()
            if x in seen:
                continue
            seen.add(x)
            for d in c.deps(x):
                if d in c.src:
                    todo.append(d)
                else:
                    ins.add(d)
        groups.setdefault(frozenset(ins), []).append(t)
    want = "groups " + " ".join(sorted(",".join(map(str, sorted(i))) + "|" + ",".join(map(str, sorted(o))) for i, o in groups.items()))
    want = want.strip()
    if reply.strip() != want:
        return ["wire show groups the outputs of the set as %r; by the set's providers the groups (inputs|outputs) are %r" % (reply, want)]
    return []



def _bind_parse(ws):
    it = iter(int(x) for x in ws[1:])
    nx = lambda: next(it)
    mode, use = nx(), nx() != 0
    named = []
    for _ in range(nx()):
        ms = [(nx(), nx(), nx() != 0) for _ in range(nx())]
        es = [(nx(), nx() != 0) for _ in range(nx())]
        named.append((ms, es))
    ifs = [[(nx(), nx()) for _ in range(nx())] for _ in range(nx())]
    args = [(nx(), nx(), nx()) for _ in range(nx())]
    return mode, use, named, ifs, args


def _bind_methodset(named, ifs, ty):
    """Go's method-set rule, restated independently of the Lean model: ty = (pointer depth, kind, id)"""
    d, k, i = ty
    if k == 1 and d == 0:
        return set(ifs[i])
    if k != 0 or d > 1:
        return set()
    own, es = named[i]
    out = {(n, sg) for n, sg, ptr in own if d == 1 or not ptr}
    own_names = {n for n, _, _ in own}
    for e, eptr in es:
        for n, sg, ptr in named[e][0]:
            if n in own_names:
                continue                       # depth 0 shadows depth 1
            if sum(1 for e2, _ in es if n in {m[0] for m in named[e2][0]}) != 1:
                continue                       # two embedded fields declare it: ambiguous, not in the method set
            if d == 1 or eptr or not ptr:
                out.add((n, sg))
    return out


def oracle_c11_bind(case, reply):
    """wire.Bind / wire.InterfaceValue accept only what Go's method-set rule allows (the `only if` of C11)"""
    ws = case["raw"]
    mode, use, named, ifs, args = _bind_parse(ws)
    if not reply.startswith("ok"):
        if reply.startswith(("panic", "unparsed", "blowup", "timeout")):
            return ["%s on %s" % (reply, " ".join(ws))]
        return []
    what = "wire.Bind" if mode == 0 else "wire.InterfaceValue"
    if len(args) != 2:
        return ["%s accepted with %d arguments" % (what, len(args))]
    a0, a1 = args
    if not (a0[0] == 1 and a0[1] == 1):
        return ["%s accepted although its first argument is not a pointer to an interface: %s" % (what, a0)]
    if mode == 0:
        if use and a1[0] == 0:
            return ["wire.Bind accepted a second argument that is not a pointer: %s" % (a1,)]
        prov = (a1[0] - 1, a1[1], a1[2]) if use else a1
        if prov == (0, 1, a0[2]):
            return ["wire.Bind accepted binding interface I%d to itself" % a0[2]]
    else:
        prov = a1
        if a1[1] == 3:
            return ["wire.InterfaceValue accepted the untyped nil"]
    need = set(ifs[a0[2]])
    have = _bind_methodset(named, ifs, prov)
    if not need <= have:
        return ["%s accepted (%s) although the provided type %s (depth, kind, id) lacks the interface's methods %s (name, signature) "
                "by Go's method-set rule; declared methods (name, signature, pointer receiver) and embedded fields: %s; interfaces: %s"
                % (what, reply, prov, sorted(need - have), named, ifs)]
    return []


def oracle_c11_any(case, reply):
    if case.get("op") == "bind":
        return oracle_c11_bind(case, reply)
    return oracle_c11(case, reply)


def oracle_c13_access(case, reply):
    """an accepted value expression mentions nothing the target package cannot name (restated from the property)"""
    ws = case["raw"]
    if ws[0] != "access":
        return []
    if reply.startswith(("panic", "unparsed", "blowup", "timeout")):
        return ["%s on %s" % (reply, " ".join(ws))]
    if not reply.startswith("ok"):
        return []
    it = iter(int(x) for x in ws[1:])
    want, n = next(it), next(it)
    bad = []
    for _ in range(n):
        if next(it) == 0:
            name, exported, scope, pkg, importable = next(it), next(it), next(it), next(it), next(it)
            if scope in (0, 1):
                continue
            if pkg != want and not exported:
                bad.append("identifier #%d is unexported in package %d" % (name, pkg))
            if pkg != want and not importable:
                bad.append("identifier #%d belongs to package %d, which package %d may not import" % (name, pkg, want))
            if scope == 3:
                bad.append("identifier #%d is local to a function" % name)
        else:
            for _ in range(next(it)):
                name, exported, pkg = next(it), next(it), next(it)
                if not exported and pkg != want:
                    bad.append("a positional literal sets the unexported field #%d of package %d" % (name, pkg))
    return ["value expression accepted for package %d although %s" % (want, "; ".join(bad[:3]))] if bad else []


def oracle_c01_nameable(case, reply):
    """an accepted injector signature spells no unexported defined type of another package (restated from the Go rule)"""
    ws = case["raw"]
    if ws[0] != "nameable":
        return []
    if reply.startswith(("panic", "unparsed", "blowup", "timeout")):
        return ["%s on %s" % (reply, " ".join(ws))]
    it = iter(int(x) for x in ws[1:])
    want = next(it)
    bad = []

    def walk():
        tag = next(it)
        if tag == 0:
            i, pkg, exported, n = next(it), next(it), next(it), next(it)
            if pkg != want and not exported:
                bad.append(i)
            for _ in range(n):
                walk()
        elif tag == 1:
            for _ in range(next(it)):
                walk()
    walk()
    if reply == "ok" and bad:
        return ["a signature type is accepted for package %d although it mentions the unexported defined type(s) %s of another package" % (want, bad[:3])]
    return []

ORACLES = {"C19": oracle_c19, "C09": oracle_c09, "C12": oracle_c12, "C02": oracle_c02, "C05": oracle_c05, "C06": oracle_c06, "C07": oracle_c07,
           "C08": oracle_c08, "C10": oracle_c10, "C11": oracle_c11_any, "C13": oracle_c13_access, "C01": oracle_c01_nameable}


# ---- projections: which part of a reply a property's correspondence compares --------------

def rename_changed(case, im):
    """a rename request in which at least one identifier got a new name"""
    ws = case.get("raw") or []
    if not ws or ws[0] != "rename":
        return False
    nf = int(ws[1])
    rest = ws[2 + nf:]
    toks = rest[1:]
    names = [toks[i] for i in range(0, len(toks) - 2, 3) if toks[i + 2] != "s"]
    return names != im.split(" | ")[0].split()[1:]


def group_oracle_c15(res):
    """rename stream: the harness re-type-checks every copied declaration under the generated import block and
    compares, identifier by identifier, what it resolves to with what the original resolved to"""
    fails = []
    for req, im, meta in zip(res["reqs"], res["impl"], res["meta"]):
        verdict = im.split(" | ")[-1] if " | " in im else im
        if verdict == "bind ok":
            continue
        fname, _, decl = meta.partition(":")
        src = res.get("sources", {}).get(fname, "")
        m = re.search(r"(?ms)^func (?:\([^)]*\) )?%s\b.*?^}" % re.escape(decl), src)
        fails.append({"request": req[:3000], "impl": im[-1500:], "declaration": decl, "file": fname,
                      "source": (m.group(0) if m else src)[:4000], "imports": src[:src.find(")") + 1],
                      "why": ["copied declaration %s: %s" % (decl, verdict[:400])]})
    return fails


def project(prop, reply):
    if prop == "C15":
        return reply.split(" | ")[0]
    if prop in ("C02", "C10", "C11", "C09", "C14", "C16", "C19", "C12", "C13", "C15", "C17", "C19", "C20", "C01"):
        return reply
    parts = []
    for part in reply.split(" | "):
        m = re.match(r"(set \d+ )?(\w+)(.*)$", part.strip())
        if not m:
            parts.append(part)
            continue
        head, verdict, rest = m.group(1) or "", m.group(2), m.group(3).split()
        pre = {"C05": "multi:", "C06": "noprov:", "C07": "cycle:", "C08": "unused"}[prop]
        keep = [t for t in rest if t.startswith(pre)]
        if prop == "C06":
            keep = [":".join(t.split(":")[:2]) for t in keep]
        v = verdict if verdict in ("ok", "err") else verdict
        parts.append(head + v + " " + " ".join(keep))
    return " | ".join(parts)


# ---- running a stream -----------------------------------------------------------------------

def run_stream(mode, args, timeout=900):
    """Run the harness in `mode`, then the Lean model on the same requests.

    Returns dict(reqs, impl, model, rc, err)."""
    d = scratch("wvs")
    try:
        if mode == "gather":
            from .common import WIRESHOW, GOENV
            a = dict(zip(args[::2], args[1::2]))
            env = dict(GOENV, WIREVERIF_GATHER="%s,%s,%s" % (a.get("-seed", 1), a.get("-n", 1000), d))
            rc, out, err = run([WIRESHOW], env=env, timeout=timeout)
        elif mode == "rename":
            from . import renamegen
            a = dict(zip(args[::2], args[1::2]))
            os.makedirs(d + "/src")
            renamegen.write_sources(d + "/src", int(a.get("-seed", 1)), int(a.get("-n", 40)))
            rc, out, err = run([WIREVERIF, mode, "-out", d, "-src", d + "/src"], timeout=timeout)
        else:
            rc, out, err = run([WIREVERIF, mode, "-out", d] + [str(a) for a in args], timeout=timeout)
        reqs = open(d + "/req.txt").read().split("\n") if os.path.exists(d + "/req.txt") else []
        impl = open(d + "/impl.txt").read().split("\n") if os.path.exists(d + "/impl.txt") else []
        meta = open(d + "/meta.txt").read().split("\n") if os.path.exists(d + "/meta.txt") else []
        if reqs and reqs[-1] == "":
            reqs.pop()
        if impl and impl[-1] == "":
            impl.pop()
        if meta and meta[-1] == "":
            meta.pop()
        extra = {}
        if mode in ("rename", "bind", "access", "nameable"):
            # sources the harness could not use (a defect of the generator, never of Wire) are counted, not compared
            skip = mode + "-skip"
            keep = [i for i, r in enumerate(reqs) if not r.startswith(skip)]
            extra["skipped"] = [reqs[i] + " " + impl[i] for i, r in enumerate(reqs) if r.startswith(skip)][:5]
            extra["n_skipped"] = len(reqs) - len(keep)
            reqs, impl, meta = [reqs[i] for i in keep], [impl[i] for i in keep], [meta[i] for i in keep if i < len(meta)]
        if mode == "rename":
            extra["sources"] = {f: open(d + "/src/" + f).read() for f in sorted(os.listdir(d + "/src"))}
        rc2, mout, merr = run([WIREMODEL], inp="\n".join(reqs) + "\n", timeout=timeout)
        model = mout.split("\n")
        if model and model[-1] == "":
            model.pop()
        return dict(extra, reqs=reqs, impl=impl, model=model, meta=meta, rc=rc, err=err + merr, rc_model=rc2)
    finally:
        rmtree(d)


def group_oracle_c10(res, known):
    """C10: within a group (base + permuted / flattened / split variants) the implementation must give
    the same verdict and the same call list.  `known` collects KNOWN-FINDING messages (D12)."""
    fails = []
    groups = {}
    for req, im, meta in zip(res["reqs"], res["impl"], res["meta"]):
        ws = meta.split()
        if len(ws) == 2:
            groups.setdefault(ws[0], []).append((ws[1], req, im))
    for g, members in groups.items():
        base = [m for m in members if m[0] == "base"]
        if not base:
            continue
        _, breq, bim = base[0]
        try:
            bcase = parse_request(breq)
            chained = any(c.chained for c in closures(bcase))
        except Exception:
            chained = False
        for kind, req, im in members:
            if kind == "base" or im == bim:
                continue
            toks = im.split()
            if kind == "flat" and toks[0] == "err" and all(t.startswith("unused") for t in toks[1:]):
                continue          # flattening exposes unused members as direct items: outside the property's quantifier
            try:
                vchained = chained or any(c.chained for c in closures(parse_request(req)))
            except Exception:
                vchained = chained
            if vchained and toks[0] == "err" and all(t.startswith(("bindmissing", "importfailed")) for t in toks[1:]):
                known.add("D12")
                continue
            fails.append({"request": req, "impl": im, "base_request": breq,
                          "why": ["%s variant of an accepted program gives a different result: %s (base: %s)" % (kind, im[:200], bim[:200])]})
    return fails
